#!/bin/bash
# Run once after a fresh restore, offline: build what the framework needs from files on disk.
set -e
cd "$(dirname "$0")"
export PYTHONHASHSEED=0 PYTHONDONTWRITEBYTECODE=1
export VERIF_REPO="${VERIF_REPO:-/repo}"
export PYTHONPATH="$VERIF_REPO/src:$PWD"
mkdir -p .cache evidence replays
/venv/bin/python - <<'PY'
from vf import common
common.rebuild()
common.ensure_repo_importable()
try:
    from vf import refalign
    refalign.build()
except ImportError:
    pass
print("setup ok")
PY
