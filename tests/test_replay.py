"""Replays every stored violation artefact (replays/<ID>/*.json) without the explorer: on a tree where the property holds
each replay must come out clean.  Run:  cd /verif && PYTHONPATH=/repo/src:/verif /venv/bin/python -m pytest -q tests/test_replay.py"""
import glob
import importlib
import os

import pytest

HERE = os.path.dirname(os.path.dirname(os.path.abspath(__file__)))
ARTEFACTS = sorted(glob.glob(os.path.join(HERE, "replays", "C*", "*.json")) + glob.glob(os.path.join(HERE, "regressions", "C*", "*.json")))


@pytest.mark.parametrize("path", ARTEFACTS or [None])
def test_replay(path):
    if path is None:
        pytest.skip("no stored artefacts")
    prop = os.path.basename(os.path.dirname(path))
    from vf import common

    common.ensure_repo_importable()
    mod = importlib.import_module(f"vf.checks.{prop.lower()}")
    assert mod.replay(path) == 0, f"{path} still violates {prop}"
