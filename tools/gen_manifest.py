#!/usr/bin/env python3
"""Writes /verif/MANIFEST.json from the table below (kept in one place so that it stays valid)."""
import json
import os

HERE = os.path.dirname(os.path.dirname(os.path.abspath(__file__)))

# id -> (category, technique, text, note, design_ref)
CHECKS = {
    "C13": (
        "exploration",
        "bounded exhaustive enumeration of inputs (small-scope) on the real code against a declarative reference",
        "Every quality string over 5-7 values around the cutoff up to length 8, x 5 cutoff pairs x 3 (base, cutoff) "
        "settings, NextSeq mode x every sequence over {A,G}, is run through quality_trim_index/nextseq_trim_index, the "
        "modifier classes and cutadapt.cli.main and compared with the BWA definition written from the statement; the "
        "removed-bases figure of the JSON and text report is compared with the bases actually removed. Exhaustive within "
        "the stated scope; the definition is shift-invariant in (quality - cutoff), so the scope covers all cutoffs.",
        "Trusted: dnaio record slicing/parsing, the harness's reference (30 lines, cross-checked by a mutation run).",
        "DESIGN.md section 3, C13",
    ),
}

NOT_YET = "check not built yet in this session (planned in DESIGN.md section 3)"


def main():
    props = [json.loads(l) for l in open(os.path.join(HERE, "properties.jsonl"))]
    checks = []
    na = []
    for p in props:
        pid = p["id"]
        if pid in CHECKS:
            cat, tech, text, note, ref = CHECKS[pid]
            checks.append({
                "property_id": pid,
                "quick_cmd": f"./check {pid} --tier quick",
                "thorough_cmd": f"./check {pid} --tier thorough",
                "evidence_file": f"/verif/evidence/{pid}.json",
                "replay_cmd_template": f"./check {pid} --replay {{path}}",
                "engine": "vf",
                "level_claimed": {"category": cat, "text": text, "design_ref": ref},
                "level_note": note,
                "technique": tech,
            })
        else:
            na.append({"property_id": pid, "reason": NOT_YET})
    m = {
        "version": 1,
        "setup_cmd": "./setup.sh",
        "hooks": {
            "guard": "CUTADAPT_VERIF",
            "enable": "no source hooks are needed: every seam is reachable from outside (public classes, module attributes "
                      "of cutadapt.runners, cutadapt.cli.main); checks import /repo/src directly and re-cythonize the "
                      "extension modules in place when their sources changed",
            "baseline_off_cmd": "cd /repo && /venv/bin/python -m pytest -ra -q -p no:cacheprovider --timeout=900 "
                                "--continue-on-collection-errors",
            "source_commits": [],
            "add_only": True,
        },
        "engines": [
            {"name": "vf", "path": "/verif/vf", "serves_properties": sorted(CHECKS),
             "kind_free_text": "hand-written bounded exhaustive explorers (small-scope input/option enumeration, virtual "
                               "multiprocessing scheduler with delay-bounded and state-matching search, fault enumeration) "
                               "driving the real cutadapt code, with reference oracles"},
        ],
        "checks": checks,
        "notes": "All checks: ./check <ID> [--tier quick|thorough] [--replay FILE]; exit 0 held / 1 VIOLATION / 2 harness error. "
                 "Known findings: /verif/known_findings.txt.",
        "not_applicable": na,
    }
    with open(os.path.join(HERE, "MANIFEST.json"), "w") as f:
        json.dump(m, f, indent=1)
        f.write("\n")
    print(f"MANIFEST.json: {len(checks)} checks, {len(na)} not_applicable")


if __name__ == "__main__":
    main()
