#!/usr/bin/env python3
"""Writes /verif/MANIFEST.json from the table below (kept in one place so that it stays valid)."""
import json
import os

HERE = os.path.dirname(os.path.dirname(os.path.abspath(__file__)))

# id -> (category, technique, text, note, design_ref)
CHECKS = {
    "C20": (
        "exploration",
        "bounded exhaustive enumeration of (adapter set, times, action, revcomp, cores) through cli.main: JSON statistics vs. a tally of the applied matches; exhaustive (length, rate) enumeration for the allowed-error ranges",
        "A: 9 adapter sets (3', 5', anywhere, anchored, two linked adapters, mixed) x --times {1,2,3} x {trim,none,lowercase} x --revcomp "
        "on/off: the JSON per-adapter figures (matches per end, removed-length x error histogram, adjacent bases, 5'/3' split, matches on "
        "the reverse complement, total) must equal a tally of the info-file rows of the same run; 9 scenarios are repeated with 2 cores "
        "under the virtual scheduler for every schedule with <= 1 deviation (statistics merged across workers). B: paired-end "
        "adapters_read1 / adapters_read2 vs. single-end runs on each file; --pair-adapters statistics vs. the matches recorded per pair "
        "at the modifier seam. C: the 'allowed errors' ranges for every effective length 1-60 x ~750 rates (every i/100 and every k/L, "
        "L <= 40) must state exactly int(L x rate) for every L, also through the JSON and the text report for adapters with N wildcards.",
        "Trusted: the info file (C17) as the list of applied matches; scenarios use no pre-adapter modification.",
        "DESIGN.md section 3, C20",
    ),
    "C17": (
        "exploration",
        "bounded exhaustive enumeration of (pre-adapter modification set, adapter set, times, revcomp, filter) through cli.main; every info-file row re-checked, matched stretch re-aligned by the C reference",
        "11 sets of pre-adapter modifications (subsets of -u 3, -u -2, -q 10,10, -q 10, --nextseq-trim 10) x 9 adapter sets (3', 5', "
        "anywhere, anchored, N wildcard, two linked adapters, mixed lists) x --times {1,2,3} x --revcomp on/off x filters that discard "
        "reads, on ~120 reads with position-unique qualities (incl. reads where a later round matches inside a linked adapter's "
        "remainder). Per row: >= 1 row per input read (also discarded ones); -1 rows unique; fields 5-7 / 9-11 concatenate to the input "
        "read (reverse-complemented if flagged) for the first row and to what the previous round left for later rows; fields split "
        "exactly at the reported coordinates; field 6 has, against some interval of the named adapter, exactly the reported edit "
        "distance within the tolerance (C reference).",
        "Which adapter wins a round is C09's business; the 5'/3' side of a row is derived from the adapter's documented type.",
        "DESIGN.md section 3, C17",
    ),
    "C03": (
        "exploration",
        "bounded exhaustive enumeration of reads with position-unique qualities through every modifier class and through cli.main option subsets; slice identification + differential against --action=trim",
        "Reads carry position-unique quality characters (disjoint alphabets for the two mates), so the written quality string identifies "
        "the slice (i,j) of the input that a stage kept; the written sequence must be exactly that slice of the input sequence (of the "
        "reverse complement when --revcomp chose it, of the mate when paired --revcomp swapped the pair), lengths equal. mask / "
        "lowercase / none are judged differentially: bases may differ from the input exactly outside what the trim action keeps for the "
        "same configuration (N resp. lower case outside, upper case inside, unchanged for none); retain / crop must keep the documented "
        "interval around the reported match; zero-capping is the only quality change. Seams: AdapterCutter (12-adapter menu, singles and "
        "pairs, --times 1-3, six actions), PairedAdapterCutter, ReverseComplementer, PairedReverseComplementer, the seven simple "
        "modifiers on ALL reads up to length 6 (7); cli.main on subsets of 14 read-modifying options x actions x {FASTQ, FASTA, paired}.",
        "Which slice is the right one is the business of C09/C10/C13/C14; this check judges alignment of sequence and qualities and the "
        "documented base changes.",
        "DESIGN.md section 3, C03",
    ),
    "C09": (
        "exploration",
        "bounded exhaustive enumeration of (adapter list, times, action, read) at the AdapterCutter seam against the stated combination rules",
        "Every ordered list of 1-2 adapters (thorough: plus a quarter of all ordered triples) from a 17-entry menu - every adapter type, "
        "near-duplicates that tie on score, two adapters with the same name, five linked adapters covering every required/optional "
        "combination - x --times {1,2,3} x actions {trim,none,lowercase,mask,retain,crop} x ALL reads over ACGT up to length 6 (7) with "
        "position-unique qualities, index disabled; 1.9e7 modifier calls in the quick tier. The reference takes each adapter's own "
        "match_to and applies: highest score, then fewer errors, then first given; one removal per round on the already trimmed read; "
        "non-trim actions once on the original read over the union of removed parts; linked: 3' part searched in the remainder after the "
        "5' part, untouched and untrimmed when a required part is missing. A cli.main pass (--no-index, --rename {adapter_name}) binds "
        "the seam to the command line.",
        "Trusted: single-adapter match_to (C01/C02). mask/crop with linked adapters are documented as unsupported and not enumerated.",
        "DESIGN.md section 3, C09",
    ),
    "C16": (
        "exploration",
        "bounded exhaustive enumeration of (adapter list, rate, times, action, read / read pair) at the ReverseComplementer seams against the strict-improvement rule",
        "Adapter lists from a 10-entry menu (all types incl. linked) x (error rate, min overlap) in {(0.34,2),(0.7,2),(0.7,5),(0,3)} so "
        "that negative scores and ties occur x --times {1,2} x every action x ALL reads over ACGT up to length 6 (7) for the single-end "
        "stage; all pairs from a 40-read menu with cutters on {both, R1 only, R2 only} for the paired stage. Oracle: run the real "
        "adapter-trimming stage on the given orientation and on the reverse complement (swapped pair); the result must be the given "
        "orientation unless the other one has a match AND a strictly higher total score; then name suffix, is_rc flag, recorded matches "
        "and counters must describe the chosen orientation. A cli.main pass checks ' rc', --rename {rc}, a later stage (--length) and the "
        "reverse-complemented figure of the JSON report.",
        "Trusted: the adapter-trimming stage without --revcomp (C09).",
        "DESIGN.md section 3, C16",
    ),
    "C15": (
        "exploration",
        "bounded exhaustive enumeration of demultiplexing configurations x reads with 0/1/2 adapter matches through cli.main; differential against the run without demultiplexing; 2-core runs under the virtual scheduler",
        "{name}: 1-3 named R1 adapters (3' and 5' mixed) x --times {1,2} x {none,--discard-untrimmed,--untrimmed-output} x {no filter,-m} "
        "x {single,paired}; {name1}/{name2}: every 1-3 x 1-3 combination of R1/R2 adapter counts x --times x {none,--discard-untrimmed}. "
        "Corpus: reads with no adapter, each adapter in full / partial / one-mismatch form, and every ordered pair of two different "
        "adapters (with --times 2 the last match decides). Oracle: the set of created files equals the set of names / name combinations "
        "(+ unknown as documented), every record sits in the file of its last R1 match (pair of last-match names), and the multiset of "
        "records over all demultiplexed files equals the output of the same command without {name}. Eight scenarios are additionally "
        "run with 2 cores under the virtual scheduler (default schedule and every schedule with one deviation).",
        "Trusted: adapter matching (C01/C02), best-of/rounds rule (C09), virtual scheduler (C06).",
        "DESIGN.md section 3, C15",
    ),
    "C04": (
        "exploration",
        "bounded exhaustive enumeration of (option set x predicate vector) states through cli.main; independent parse of every output file and report",
        "Filter subsets x {none,--discard-trimmed,--discard-untrimmed,--untrimmed-output} x redirect files x output kind {plain, {name}, "
        "{name1}/{name2}} x {single, paired} x report {full text, minimal} (JSON always), plus scenarios with --info-file/--rest-file/"
        "--wildcard-file, quality/NextSeq/poly-A trimming, --times 2 and --action none/mask, on a corpus with one read per predicate "
        "vector (incl. reads trimmed to length 0). Every output file is parsed by the harness: each input read occurs in exactly the "
        "predicted file exactly once or nowhere; JSON: input = output + sum(filtered), each requested category equals the number of "
        "reads meeting that fate, output/base-pair figures equal the file contents, quality-trimmed / poly-A-trimmed / with-adapter "
        "figures equal sums over the reads; text report rows and minimal report columns likewise.",
        "Trusted: destination model of vf.routing (documented filter chain), harness FASTQ reader.",
        "DESIGN.md section 3, C04",
    ),
    "C05": (
        "exploration",
        "bounded exhaustive enumeration of paired-end configurations x pairs with disagreeing mates through cli.main",
        "{two files, interleaved} input x {two files, interleaved} output x --pair-filter {unset,any,both,first} x every single filter, "
        "every pair of filters, none and all x {none,--discard-trimmed,--discard-untrimmed,--untrimmed-output} x adapters on {both,R1 "
        "only,R2 only}; 7 length specifications (L, L1:L2, L1:, :L2); {name} and {name1}/{name2} demultiplexing; --pair-adapters with "
        "1-2 adapter pairs x every action. Corpus of 300 pairs in which the mates disagree on most predicates and all four combinations "
        "of adapter presence occur. Every pair of output files (or interleaved file) must hold equally many records with the same ids at "
        "the same rank, the R2 record must be the processed mate, and the pair's destination must equal the documented combination.",
        "Trusted: per-read criteria (C11), vf.refpipe pair model.",
        "DESIGN.md section 3, C05",
    ),
    "C11": (
        "exploration",
        "bounded exhaustive enumeration of filter-option sets x predicate vectors through cli.main against the documented filter chain",
        "Every subset of {-m,-M,--max-n,--max-ee,--max-aer,--discard-casava} x {none,--discard-trimmed,--discard-untrimmed,"
        "--untrimmed-output} x redirect files on/off x 13 boundary thresholds (length equal to the bound, N count equal to the bound, "
        "N fraction exactly at the cut-off, expected errors around the bound), single-end; paired-end additionally x --pair-filter "
        "{unset,any,both,first} x adapters on {both,R1 only,R2 only} x L1:L2 / L1: / :L2 bounds. The corpus has one read per combination "
        "of (trimmed-length class, N count, expected-error class, CASAVA flag, adapter present) = 576 reads, so every realisable vector "
        "of predicate outcomes meets every option set. Oracle: first filter of the documented order whose documented criterion holds on "
        "the fully modified read decides the single destination; every output file is parsed and each read must be exactly there.",
        "Trusted: vf.refops definitions (C13/C14), adapter matching (C01/C02). Thresholds avoid floating-point ties except exact "
        "single-value boundaries.",
        "DESIGN.md section 3, C11",
    ),
    "C10": (
        "exploration",
        "bounded exhaustive enumeration of operation sequences (option subsets x command-line orders) through cli.main against a step-composition reference",
        "Every subset of 13 single-end read-modifying options (cut +/-, NextSeq, -q, adapter, poly-A, --length, --trim-n, --length-tag, "
        "--strip-suffix, prefix/suffix, --rename, --zero-cap; fixed parameters) and of 13 paired-end options (incl. -U, -Q, -A, -L) is "
        "run through cutadapt.cli.main in several command-line orders (all permutations for subsets up to 3 (4) options). The corpus "
        "holds, for every pair of reference steps, the shortest reads over {A,C,G,N} x quality levels on which the two steps do not "
        "commute (searched exhaustively, counts in the evidence), so a swapped pair of stages changes some output. Oracle: composition "
        "of the individually specified operations in the documented order with the documented R1/R2/both routing.",
        "Trusted: reference steps of vf.refops (verified against the implementation one by one in C13/C14), each adapter's own match_to "
        "(C01/C02). Fixed parameter values; FASTQ (quality base 64) and FASTA input.",
        "DESIGN.md section 3, C10",
    ),
    "C08": (
        "exploration",
        "bounded exhaustive enumeration of adapter sets x configurations x reads on the real index classes, judged against exact distance tables",
        "All ordered pairs (first adapter canonical) of strings over {A,C,G} of length 3-4 (thorough 3-5) and all ordered triples of "
        "equal-length strings, under 4-6 shared error rates (so that allowed errors 0-3 differ between adapters of different length), "
        "indels on/off, anchored 5' and 3', against ALL reads over ACGT up to length 6 (7) plus reads with one N - including reads "
        "shorter than the longest index string and reads equal to one adapter. Clause 1: coordinates inside the read, anchored, reported "
        "errors == exact edit/Hamming distance <= the adapter's own allowance; clause 2: a uniquely occurring adapter is reported "
        "(N-free reads); clause 3: IndexedPrefix/SuffixAdapters == MultipleAdapters when lengths are equal, indels off and the nearest "
        "adapter is strictly unique (every order of the list is enumerated).",
        "Trusted: C reference distance tables; letter symmetry for the first adapter of a set.",
        "DESIGN.md section 3, C08",
    ),
    "C12": (
        "fault_enumeration",
        "exhaustive fault enumeration (every truncation offset, every single-record corruption position) x delay-bounded exploration of all schedules of the multi-core runner",
        "A 6-record FASTQ is truncated at EVERY byte offset (plain) and at every byte of its gzip stream, 9 single-record corruptions are "
        "applied at the first/middle/last record, and 14 paired-end/interleaved faults (missing mates, mismatching names, empty file) are "
        "built. Each fault runs with one core through cli.main and with 2-3 workers on the virtual multiprocessing layer under every "
        "schedule with <= 1 (thorough 2) deviations, pipe capacity unbounded and 1, plus real OS processes with a time-out. Oracle: a "
        "strict independent FASTQ/gzip reader decides well-formedness; malformed => non-zero exit + message + termination (no deadlock "
        "state, no horizon); exit 0 => well-formed and every record present; outputs always parse completely and are a prefix of the "
        "processed good records.",
        "Trusted: virtual primitive semantics (recv without EOF), strict reader, Python gzip/zlib as the compression oracle. An uncaught "
        "exception (traceback, non-zero exit) counts as a visible failure.",
        "DESIGN.md section 3, C12",
    ),
    "C06": (
        "model_checking",
        "stateless model checking of the real multi-core runner under a virtual scheduler: delay-bounded (D(d)) and exact-state-matching (S) exploration of all pipe/queue interleavings",
        "The unmodified cutadapt.runners (reader, N workers, collecting main process) and cli.main run on a virtual multiprocessing layer "
        "(pipes, queue, connection.wait, start/join/terminate re-implemented over a one-thread-at-a-time baton scheduler). For 17 option "
        "sets allowed with --cores (single/paired/interleaved, redirects, info/rest/wildcard files, {name} and {name1}/{name2} "
        "demultiplexing, revcomp, gz and FASTA output, linked adapters, --pair-adapters ...) x 2-3 workers x 2-4 chunks x pipe capacity "
        "{unbounded, 1 data chunk}: quick explores every schedule with <= 2 deviations from the default schedule (about 1.6e4 complete "
        "executions), thorough adds D(3) and exact state matching without bound. Every execution is compared with the one-core run: all "
        "output files after decompression byte-identical, JSON and text report identical, no deadlock, no horizon hit. The same command "
        "lines are also run as real OS processes (conformance of the virtual layer).",
        "Trusted: semantics of the virtual primitives (DESIGN 1.1), the commuting-receive reduction, spawn-style state copy; real "
        "processes' private module state is not modelled. Bounds: <= 3 workers, <= 4 chunks, 9 reads.",
        "DESIGN.md sections 1.1 and 3, C06",
    ),
    "C01": (
        "exploration",
        "bounded exhaustive enumeration of (adapter type, adapter, configuration, read) on the real match_to, judged by a naive C reference aligner",
        "All 11 adapter types (8 + the three ';anywhere' variants) x all canonical adapters over ACGT up to length 4 (thorough 5) x every "
        "error-rate profile x minimum overlaps x indels on/off x ALL reads over ACGT up to length 7 (8); wildcard family over ACNR x "
        "ACGNa with the four -N/--match-read-wildcards settings; realistic-band family (6 adapters of 12-21 nt + one 70 nt against every "
        "read within 1-2 edits of every prefix/suffix). Every reported match is checked against the statement by an unbanded reference DP: "
        "interval bounds, placement predicate of the type, minimum overlap, errors == true edit/Hamming distance, errors <= rate x non-N "
        "aligned bases. About 6e8 match_to calls in the quick tier, exhaustive within the scope.",
        "Trusted: the C reference (120 lines, cross-checked against a Python twin every run), letter symmetry of ACGT (validated on "
        "non-canonical adapters), the error-rate profile argument of DESIGN 2.1.",
        "DESIGN.md section 3, C01",
    ),
    "C02": (
        "exploration",
        "bounded exhaustive enumeration of (adapter type, adapter, configuration, read); completeness oracle = brute-force set of all admissible occurrences",
        "Same families as C01 with the k-mer prefilter replaced by the always-true finder. For every (configuration, read) the C "
        "reference enumerates all admissible occurrences (one full DP per admissible start) and the check demands: a match whenever an "
        "error-free admissible occurrence exists; a match whenever any admissible occurrence exists (indels off, or types that cannot skip "
        "the adapter start); regular 3' cut at or before the leftmost exact full copy, regular 5' at or before its end, rightmost at or "
        "after the end of the rightmost copy; exact anchored occurrence removed exactly.",
        "Trusted: as C01. The with-indels clause is restricted to the adapter types named in the statement.",
        "DESIGN.md section 3, C02",
    ),
    "C07": (
        "exploration",
        "bounded exhaustive differential enumeration: match_to with the real k-mer finder vs. with the always-true finder",
        "Same families as C01 restricted to configurations that build a real KmerFinder (incl. anchored/non-internal with indels, anywhere "
        "adapters on reads shorter than the adapter, a 70-nt adapter for the multi-word path); the reported tuple must be identical with "
        "and without the prefilter for every read. Non-vacuity: the number of reads for which the prefilter answered 'absent' is reported.",
        "Trusted: letter symmetry of ACGT (validated), error-rate profiles. Memory-safety of the finder is outside this technique.",
        "DESIGN.md section 3, C07",
    ),
    "C14": (
        "exploration",
        "bounded exhaustive enumeration of sequences / quality strings against declarative definitions",
        "poly-A/poly-T: all sequences over {A,C,T} up to length 11 (13) and over {A,a,N,G,T} up to 7 (8), plus all placements of <= 3 other "
        "bases in tails of length 3..26 (the 20 % boundary); --trim-n: all over {A,C,N} up to 9; N count: all over {A,N,n} x 9 cut-offs "
        "(counts and fractions at the boundary); expected errors: all strings over 6 characters up to length 7 + every valid phred value "
        "for both bases + invalid characters; each at the function, the modifier/predicate and the cli.main seam incl. the poly-A figures "
        "of the JSON report.",
        "Trusted: dnaio record slicing; float tolerance 1e-12 relative for summation order.",
        "DESIGN.md section 3, C14",
    ),
    "C13": (
        "exploration",
        "bounded exhaustive enumeration of inputs (small-scope) on the real code against a declarative reference",
        "Every quality string over 5-7 values around the cutoff up to length 8, x 5 cutoff pairs x 3 (base, cutoff) "
        "settings, NextSeq mode x every sequence over {A,G}, is run through quality_trim_index/nextseq_trim_index, the "
        "modifier classes and cutadapt.cli.main and compared with the BWA definition written from the statement; the "
        "removed-bases figure of the JSON and text report is compared with the bases actually removed. Exhaustive within "
        "the stated scope; the definition is shift-invariant in (quality - cutoff), so the scope covers all cutoffs.",
        "Trusted: dnaio record slicing/parsing, the harness's reference (30 lines, cross-checked by a mutation run).",
        "DESIGN.md section 3, C13",
    ),
}

NOT_YET = "check not built yet in this session (planned in DESIGN.md section 3)"


def main():
    props = [json.loads(l) for l in open(os.path.join(HERE, "properties.jsonl"))]
    checks = []
    na = []
    for p in props:
        pid = p["id"]
        if pid in CHECKS:
            cat, tech, text, note, ref = CHECKS[pid]
            checks.append({
                "property_id": pid,
                "quick_cmd": f"./check {pid} --tier quick",
                "thorough_cmd": f"./check {pid} --tier thorough",
                "evidence_file": f"/verif/evidence/{pid}.json",
                "replay_cmd_template": f"./check {pid} --replay {{path}}",
                "engine": "vf",
                "level_claimed": {"category": cat, "text": text, "design_ref": ref},
                "level_note": note,
                "technique": tech,
            })
        else:
            na.append({"property_id": pid, "reason": NOT_YET})
    m = {
        "version": 1,
        "setup_cmd": "./setup.sh",
        "hooks": {
            "guard": "CUTADAPT_VERIF",
            "enable": "no source hooks are needed: every seam is reachable from outside (public classes, module attributes "
                      "of cutadapt.runners, cutadapt.cli.main); checks import /repo/src directly and re-cythonize the "
                      "extension modules in place when their sources changed",
            "baseline_off_cmd": "cd /repo && /venv/bin/python -m pytest -ra -q -p no:cacheprovider --timeout=900 "
                                "--continue-on-collection-errors",
            "source_commits": [],
            "add_only": True,
        },
        "engines": [
            {"name": "vf", "path": "/verif/vf", "serves_properties": sorted(CHECKS),
             "kind_free_text": "hand-written bounded exhaustive explorers (small-scope input/option enumeration, virtual "
                               "multiprocessing scheduler with delay-bounded and state-matching search, fault enumeration) "
                               "driving the real cutadapt code, with reference oracles"},
        ],
        "checks": checks,
        "notes": "All checks: ./check <ID> [--tier quick|thorough] [--replay FILE]; exit 0 held / 1 VIOLATION / 2 harness error. "
                 "Known findings: /verif/known_findings.txt.",
        "not_applicable": na,
    }
    with open(os.path.join(HERE, "MANIFEST.json"), "w") as f:
        json.dump(m, f, indent=1)
        f.write("\n")
    print(f"MANIFEST.json: {len(checks)} checks, {len(na)} not_applicable")


if __name__ == "__main__":
    main()
