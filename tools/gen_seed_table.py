#!/usr/bin/env python3
"""Regenerates the table of seeded changes in DESIGN.md (between the header row and the first blank line after it) from
seeded/*/meta.json."""
import glob
import json
import os
import re

V = os.path.dirname(os.path.dirname(os.path.abspath(__file__)))
rows = []
for p in sorted(glob.glob(os.path.join(V, "seeded", "C*", "meta.json"))):
    m = json.load(open(p))
    sid = os.path.basename(os.path.dirname(p))
    rows.append(f"| {sid} | {m.get('needs', '').replace('|', '/')} | {m.get('detected_by', '').replace('|', '/')} |")
d = open(os.path.join(V, "DESIGN.md")).read()
head = "| seed | what it needs to manifest | reported by |\n|---|---|---|\n"
a = d.index(head) + len(head)
b = d.index("\n\n", a)
d = d[:a] + "\n".join(rows) + d[b:]
open(os.path.join(V, "DESIGN.md"), "w").write(d)
print(len(rows), "rows")
