#!/bin/bash
# usage: tools/mut.sh "<ID> [<ID>...]" <file-relative-to-/repo> <sed-expression>   (applies, runs quick checks, reverts)
ids="$1"; f="$2"; expr="$3"
cd /repo || exit 2
if ! git diff --quiet; then echo "repo dirty"; exit 2; fi
sed -i "$expr" "$f"
if git diff --quiet; then echo "MUTATION DID NOT APPLY"; exit 2; fi
git --no-pager diff -U0 | grep '^[+-]' | grep -v '^+++\|^---'
cd /verif
for id in $ids; do
  ./check $id --tier quick 2>&1 | grep -E "VIOLATION|KNOWN|HARNESS|tier=" | head -6
  echo "  -> $id exit=${PIPESTATUS[0]}"
done
cd /repo && git checkout -- . 
