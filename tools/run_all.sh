#!/bin/bash
# usage: tools/run_all.sh [tier] [seed]  -- runs every registered check, prints one line each
tier=${1:-quick}; seed=${2:-0}
cd /verif
# CHECKS="C01 C06" restricts the run
for id in ${CHECKS:-$(python3 -c "import json;print(' '.join(c['property_id'] for c in json.load(open('MANIFEST.json'))['checks']))")}; do
  s=$(date +%s)
  out=$(VERIF_SEED=$seed ./check $id --tier $tier 2>&1); st=$?
  e=$(date +%s)
  echo "$id exit=$st $((e-s))s $(echo "$out" | grep -c '^VIOLATION') violations, $(echo "$out" | grep -c '^KNOWN-FINDING') known | $(echo "$out" | grep 'tier=' | sed 's/.*evaluations=/evals=/' | cut -c1-90)"
done
