#!/bin/bash
# usage: tools/run_benign.sh <id> -- applies a property-PRESERVING change from /verif/benign/<id>/patch.diff to /repo, runs the pinned
# suite and every quick check (none may report a violation), reverts.
id=$1
p=/verif/benign/$id/patch.diff
cd /repo || exit 2
if ! git diff --quiet; then echo "repo dirty"; exit 2; fi
git apply $p 2>/dev/null || git apply -3 $p 2>/dev/null || { echo "$id: patch does not apply"; git checkout HEAD -- . ; git reset -q; exit 2; }
git reset -q 2>/dev/null
cd /verif && /venv/bin/python -c "
import sys; sys.path.insert(0,'/verif')
from vf import common; common.rebuild()" 2>/dev/null
t=$(cd /repo && /venv/bin/python -m pytest -q -p no:cacheprovider --timeout=900 --deselect tests/test_command.py::test_run_cutadapt_process 2>&1 | tail -1)
echo "$id tests: $t"
cd /verif
tools/run_all.sh quick 0 2>&1 | grep -E "^C[0-9]+ exit" | awk -v id=$id '{print id, $1, $2, $4, $5}'
cd /repo && git checkout -- . && git status --short | grep -v '^??' | head -3
