#!/bin/bash
# usage: tools/run_benign.sh <id> -- applies a property-PRESERVING change from /verif/benign/<id>/patch.diff to a scratch worktree of
# /repo (VERIF_REPO / VERIF_OUT are set, so neither /repo nor /verif/evidence is touched), runs the pinned suite and every quick check
# (none may report a violation), removes the worktree.
id=$1
p=/verif/benign/$id/patch.diff
wt=/scratch/benign/repo-$id
mkdir -p /scratch/benign
git -C /repo worktree remove --force $wt 2>/dev/null
git -C /repo worktree add --detach -f $wt HEAD >/dev/null 2>&1 || exit 2
cp /repo/src/cutadapt/_version.py $wt/src/cutadapt/ 2>/dev/null
cd $wt || exit 2
git apply $p 2>/dev/null || git apply -3 $p 2>/dev/null || { echo "$id: patch does not apply"; git -C /repo worktree remove --force $wt; exit 2; }
export VERIF_REPO=$wt VERIF_OUT=/scratch/benign/out-$id
cd /verif && PYTHONPATH=$wt/src:/verif /venv/bin/python -c "
from vf import common; common.rebuild()" 2>/dev/null
t=$(cd $wt && PYTHONPATH=$wt/src /venv/bin/python -m pytest -q -p no:cacheprovider --timeout=900 --deselect tests/test_command.py::test_run_cutadapt_process 2>&1 | tail -1)
echo "$id tests: $t"
cd /verif
tools/run_all.sh quick 0 2>&1 | grep -E "^C[0-9]+ exit" | awk -v id=$id '{print id, $1, $2, $4, $5}'
git -C /repo worktree remove --force $wt; rm -rf /scratch/benign/out-$id
