#!/bin/bash
# usage: tools/run_seeded.sh <seed dir name under /verif/seeded> "<check ids>" [tier]
# applies the seeded change to the repository ($VERIF_REPO, default /repo), runs the given checks, reverts. One line per check.
seed=$1; ids="$2"; tier=${3:-quick}
repo=${VERIF_REPO:-/repo}
p=/verif/seeded/$seed/patch.diff
cd $repo || exit 2
if ! git diff --quiet; then echo "repo dirty"; exit 2; fi
git apply $p 2>/dev/null || git apply -3 $p 2>/dev/null || { echo "$seed: patch does not apply"; git checkout HEAD -- . ; git reset -q; exit 2; }
git reset -q 2>/dev/null
cd /verif
for id in $ids; do
  out=$(./check $id --tier $tier 2>&1); st=$?
  nv=$(echo "$out" | grep -c '^VIOLATION')
  first=$(echo "$out" | grep -A1 '^VIOLATION' | grep 'sig=' | head -1 | cut -c1-160)
  echo "$seed $id exit=$st violations_lines=$nv $first"
  [ $st = 2 ] && echo "$out" | tail -5
done
cd $repo && git checkout -- . && git status --short | grep -v '^??' | head -3
