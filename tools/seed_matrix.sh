#!/bin/bash
# Runs every stored seeded change against the quick tier of its property's check (and of the first check named in meta.json when that
# is another one).  Writes /verif/seeded/RESULTS.txt.  Works on scratch worktrees of /repo (three lanes in parallel) with VERIF_REPO /
# VERIF_OUT set, so neither /repo nor /verif/evidence is touched.
cd /verif
lanes=${LANES:-3}
root=/scratch/matrix
rm -rf $root/out*; mkdir -p $root
for k in $(seq 1 $lanes); do
  git -C /repo worktree remove --force $root/repo$k 2>/dev/null
  git -C /repo worktree add --detach -f $root/repo$k HEAD >/dev/null 2>&1 || exit 2
  cp /repo/src/cutadapt/_version.py $root/repo$k/src/cutadapt/ 2>/dev/null
done
# PATTERN restricts the run to some seeds (their lines replace the old ones in RESULTS.txt)
ls seeded | grep -E '^C[0-9]+[a-z]$' | grep -E "${PATTERN:-.}" > $root/all.txt
lane() {
  k=$1
  export VERIF_REPO=$root/repo$k VERIF_OUT=$root/out$k
  : > $root/results$k.txt
  awk -v k=$k -v n=$lanes 'NR % n == k % n' $root/all.txt | while read d; do
    prop=${d:0:3}
    first=$(python3 -c "
import json,re
m=json.load(open('seeded/$d/meta.json'))
ids=re.findall(r'C\d\d', m.get('detected_by',''))
print(ids[0] if ids else '$prop')")
    checks="$first"
    [ "$first" != "$prop" ] && checks="$prop $first"
    tools/run_seeded.sh $d "$checks" 2>&1 | grep -E "^$d " | cut -c1-200 >> $root/results$k.txt
  done
}
for k in $(seq 1 $lanes); do lane $k & done
wait
if [ -n "$PATTERN" ] && [ -f seeded/RESULTS.txt ]; then
  grep -v -E "^C[0-9]+[a-z] " /dev/null > /dev/null
  (awk '{print $1}' $root/results*.txt | sort -u > $root/done.txt; grep -v -w -F -f $root/done.txt seeded/RESULTS.txt; cat $root/results*.txt) | sort > $root/merged.txt
  cp $root/merged.txt seeded/RESULTS.txt
else
  cat $root/results*.txt | sort > seeded/RESULTS.txt
fi
for k in $(seq 1 $lanes); do git -C /repo worktree remove --force $root/repo$k; done
awk '{print $1, $2, $3}' seeded/RESULTS.txt
