#!/bin/bash
# Runs every stored seeded change against the quick tier of its property's check (and of a second check where meta names one).
# Writes /verif/seeded/RESULTS.txt. Applies patches to /repo and reverts them: run nothing else meanwhile.
cd /verif
out=seeded/RESULTS.txt
: > $out
for d in $(ls seeded | grep -E '^C[0-9]+[a-z]$'); do
  prop=${d:0:3}
  extra=$(python3 -c "
import json,re
m=json.load(open('seeded/$d/meta.json'))
ids=re.findall(r'C\d\d', m.get('detected_by',''))
ids=[i for i in dict.fromkeys(ids) if i!='$prop']
print(' '.join(ids[:1]))")
  first=$(python3 -c "
import json,re
m=json.load(open('seeded/$d/meta.json'))
ids=re.findall(r'C\d\d', m.get('detected_by',''))
print(ids[0] if ids else '$prop')")
  checks="$first"
  [ "$first" != "$prop" ] && checks="$prop $first"
  tools/run_seeded.sh $d "$checks" 2>&1 | grep -E "^$d " | cut -c1-200 >> $out
done
cat $out | awk '{print $1, $2, $3}' 
