#!/bin/bash
# usage: tools/verify_seed.sh <ID> <a|b>   -- confirms a sub-agent's seeded change in a fresh scratch worktree and stores it
# under /verif/seeded/<ID><x>/ when: tests pass with the change, demo exits 1 with it and 0 without it.
id=$1; x=$2
root=${SEEDROOT:-/tmp/seed}
src=$root/$id
# second wave (SEEDROOT=/tmp/seed2): store variants a,b as c,d
y=$x
if [ "$root" = "/tmp/seed2" ]; then y=$(echo $x | tr ab cd); fi
if [ "$root" = "/tmp/seed4" ]; then y=$(echo $x | tr ab ef); fi
if [ "$root" = "/tmp/seed5" ]; then y=$(echo $x | tr ab gh); fi
if [ "$root" = "/tmp/seed6" ]; then y=$(echo $x | tr ab ij); fi
if [ "$root" = "/tmp/seed7" ]; then y=$(echo $x | tr ab kl); fi
if [ "$root" = "/tmp/seed8" ]; then y=$(echo $x | tr ab mn); fi
wt=/tmp/vs/$id$x
patch=$src/patch_$x.diff; demo=$src/demo_$x.py
[ -s "$patch" ] && [ -s "$demo" ] || { echo "missing $patch or $demo"; exit 2; }
mkdir -p /tmp/vs
git -C /repo worktree remove --force $wt 2>/dev/null
git -C /repo worktree add --detach -f $wt HEAD >/dev/null 2>&1 || exit 2
cp /repo/src/cutadapt/_version.py $wt/src/cutadapt/ 2>/dev/null
export PYTHONPATH=$wt/src PYTHONDONTWRITEBYTECODE=1
build() { (cd $wt/src/cutadapt && /venv/bin/cythonize -i -3 -f _align.pyx qualtrim.pyx _kmer_finder.pyx info.pyx >/dev/null 2>&1); }
cp $demo $wt/demo.py
sed -i "s#$root/$id#$wt#g" $wt/demo.py
build
(cd $wt && timeout 300 /venv/bin/python demo.py >/tmp/vs/$id$x.clean.log 2>&1); clean=$?
(cd $wt && (git apply $patch 2>/dev/null || git apply -3 $patch)) || { echo "$id$x: patch does not apply"; git -C /repo worktree remove --force $wt; exit 1; }
if grep -q '\.pyx\|\.h\|_match_tables' $patch; then build; fi
(cd $wt && timeout 300 /venv/bin/python demo.py >/tmp/vs/$id$x.mut.log 2>&1); mut=$?
(cd $wt && timeout 900 /venv/bin/python -m pytest -q -p no:cacheprovider --timeout=900 --deselect tests/test_command.py::test_run_cutadapt_process >/tmp/vs/$id$x.test.log 2>&1); tests=$?
summary=$(tail -1 /tmp/vs/$id$x.test.log)
echo "$id$x: demo clean=$clean mutated=$mut tests=$tests ($summary)"
git -C /repo worktree remove --force $wt
if [ $clean = 0 ] && [ $mut = 1 ] && [ $tests = 0 ]; then
  d=/verif/seeded/$id$y; mkdir -p $d
  cp $patch $d/patch.diff; cp $demo $d/demo.py
  tail -5 /tmp/vs/$id$x.mut.log > $d/demo_output_with_change.txt
  [ -f $d/meta.json ] || cat > $d/meta.json <<META
{"property": "$id", "variant": "$y", "needs": "TODO", "confirmed": {"tests_with_change": "$summary", "demo_exit_with_change": $mut, "demo_exit_clean": $clean, "how": "tools/verify_seed.sh $id $x (fresh scratch worktree of /repo HEAD, extensions rebuilt)"}, "detected_by": "TODO"}
META
  echo "$id$x: KEPT in $d"
else
  echo "$id$x: NOT CONFIRMED (see /tmp/vs/$id$x.*.log)"
fi
