"""Shared small-scope sweep over (adapter type, adapter, configuration, read) for C01, C02 and C07.

Each check runs the sweep with its own judgement switched on:
  C01  match_to with the adapter's own k-mer finder (and with the always-true finder) -> every reported match is judged
  C02  match_to with the always-true finder -> completeness against the set of all admissible occurrences
  C07  both finders -> results must be identical; plus kmers_present against its definition
"""
import array
import itertools
import math
import pickle

from . import common, refalign

MOD = "vf.alignsweep"


# --------------------------------------------------------------------------------------------
# enumerators
# --------------------------------------------------------------------------------------------

def strings(alpha, nmax, nmin=0):
    for L in range(nmin, nmax + 1):
        for p in itertools.product(alpha, repeat=L):
            yield "".join(p)


def canonical(s, letters="ACGT"):
    """Rename plain nucleotides in order of first occurrence (A<C<G<T); other characters stay."""
    mp = {}
    out = []
    for ch in s:
        if ch not in letters:
            out.append(ch)
            continue
        if ch not in mp:
            mp[ch] = letters[len(mp)]
        out.append(mp[ch])
    return "".join(out)


def canonical_adapters(alpha, mmax, mmin=1):
    return [a for a in strings(alpha, mmax, mmin) if canonical(a) == a]


def rate_menu(m, quick):
    """Error rates such that every profile (floor(rate*L), rate*L integral?) for L<=m occurs."""
    if quick:
        base = [0.0, 0.2, 1 / 3, 0.34, 0.5, 2 / 3]
    else:
        pts = sorted({k / L for L in range(1, m + 1) for k in range(0, L)})
        base = []
        for i, p in enumerate(pts):
            base.append(p)
            nxt = pts[i + 1] if i + 1 < len(pts) else 1.0
            base.append((p + nxt) / 2)
    seen = {}
    for r in base:
        prof = tuple((math.floor(r * L), r * L == math.floor(r * L)) for L in range(1, m + 1))
        seen.setdefault(prof, r)
    return sorted(seen.values())


ADAPTER_CLASSES = None


def classes():
    global ADAPTER_CLASSES
    if ADAPTER_CLASSES is None:
        from cutadapt import adapters as A

        ADAPTER_CLASSES = {
            "back": (A.BackAdapter, {}, "back"),
            "front": (A.FrontAdapter, {}, "front"),
            "prefix": (A.PrefixAdapter, {}, "prefix"),
            "suffix": (A.SuffixAdapter, {}, "suffix"),
            "front_ni": (A.NonInternalFrontAdapter, {}, "front_ni"),
            "back_ni": (A.NonInternalBackAdapter, {}, "back_ni"),
            "anywhere": (A.AnywhereAdapter, {}, "anywhere"),
            "rightmost": (A.RightmostFrontAdapter, {}, "rightmost"),
            # ';anywhere' variants: searched like an anywhere adapter, trimmed like their own type
            "back;anywhere": (A.BackAdapter, {"force_anywhere": True}, "anywhere"),
            "front;anywhere": (A.FrontAdapter, {"force_anywhere": True}, "anywhere"),
            "rightmost;anywhere": (A.RightmostFrontAdapter, {"force_anywhere": True}, "anywhere"),
        }
    return ADAPTER_CLASSES


ALL_TYPES = ["back", "front", "prefix", "suffix", "front_ni", "back_ni", "anywhere", "rightmost",
             "back;anywhere", "front;anywhere", "rightmost;anywhere"]

_READSETS = {}


def readset(alpha, nmax, extra=()):
    key = (alpha, nmax, tuple(extra))
    if key not in _READSETS:
        _READSETS[key] = refalign.ReadSet(list(strings(alpha, nmax)) + list(extra))
    return _READSETS[key]


# --------------------------------------------------------------------------------------------
# shards
# --------------------------------------------------------------------------------------------

def family_a(tier, which):
    quick = tier != "thorough"
    mmax, nmax = (4, 7) if quick else (5, 8)
    if which == "C02" and not quick:
        nmax = 7
    out = []
    for a in canonical_adapters("ACGT", mmax):
        for t in ALL_TYPES:
            # thorough: adapters of length 5 against all reads up to 7, shorter adapters against all reads up to 8
            out.append(dict(fam="A", type=t, adapter=a, ralpha="ACGT", nmax=(7 if len(a) == 5 else nmax), rates=rate_menu(len(a), quick),
                            overlaps=sorted({1, 2, 3, len(a)} & set(range(1, len(a) + 1)) | {min(3, len(a))}),
                            wc=[(True, False)]))
    # symmetry validation scope: every adapter (not only canonical ones) of length <= 3 (quick: 2) against reads <= 6
    smax = 2 if quick else 3
    for a in strings("ACGT", smax, 1):
        if canonical(a) == a:
            continue
        for t in ALL_TYPES:
            out.append(dict(fam="Asym", type=t, adapter=a, ralpha="ACGT", nmax=6 if not quick else 5,
                            rates=rate_menu(len(a), True), overlaps=[1, len(a)] if len(a) > 1 else [1], wc=[(True, False)]))
    return out


def family_b(tier, which):
    quick = tier != "thorough"
    mmax, nmax = (3, 5) if quick else (4, 5)
    out = []
    wcs = [(True, False), (False, False), (True, True), (False, True)]  # (adapter_wildcards, read_wildcards)
    for a in strings("ACNR", mmax, 1):
        if set(a) == {"N"}:
            continue
        for t in ALL_TYPES[:8] if quick else ALL_TYPES:
            out.append(dict(fam="B", type=t, adapter=a, ralpha="ACGNa", nmax=nmax,
                            rates=[0.0, 0.34, 0.5] if quick else [0.0, 0.25, 0.34, 0.5, 0.67],
                            overlaps=[1, len(a)] if len(a) > 1 else [1], wc=wcs))
    return out


FAMILY_C_ADAPTERS = [
    "AGATCGGAAGAGC",          # Illumina universal prefix, no repeats
    "ACACACACACAC",           # periodic
    "AAAAAAAAAAAAAAAA",       # homopolymer (poly-A like)
    "GTTCNNNNNNAGGA",         # N run in the middle
    "TGGAATTCTCGGGTGCCAAGG",  # small RNA 3' adapter, 21 nt
    "NNACGTRYACGT",           # leading N, IUPAC inside
]


def _edits(s, alpha):
    out = set()
    for i in range(len(s) + 1):
        for c in alpha:
            out.add(s[:i] + c + s[i:])
    for i in range(len(s)):
        out.add(s[:i] + s[i + 1:])
        for c in alpha:
            out.add(s[:i] + c + s[i + 1:])
    out.add(s)
    return out


def family_c_reads(adapter, depth, alpha="ACGT", small=False):
    """Every string within <= depth edits of every prefix / suffix / the whole adapter (N in the adapter
    instantiated as A), flanked by every combination of the junk menus."""
    inst = adapter.replace("N", "A").replace("R", "G").replace("Y", "C")
    m = len(inst)
    cores = set()
    for L in range(3, m + 1):
        cores.add(inst[:L])
        cores.add(inst[m - L:])
    cores.add(inst + inst[:4])
    layer = set(cores)
    for _ in range(depth):
        nxt = set()
        for s in layer:
            nxt |= _edits(s, alpha)
        layer |= nxt
    reads = set()
    for core in layer:
        for pre, suf in ((("", ""), ("GGA", ""), ("", "TTG"), ("T", "C")) if small else
                         [(p, q) for p in ("", "T", "GGA") for q in ("", "C", "TTG")]):
            reads.add(pre + core + suf)
    return sorted(reads, key=lambda x: (len(x), x))


def family_c(tier, which):
    quick = tier != "thorough"
    out = []
    for idx, a in enumerate(FAMILY_C_ADAPTERS):
        for t in ALL_TYPES[:8]:
            out.append(dict(fam="C", type=t, adapter=a, cidx=idx, depth=1 if (quick or which == "C02") else 2,
                            small=bool(quick and which == "C02"),
                            rates=([0.1, 0.2] if which == "C02" else [0.0, 0.1, 0.2]) if quick else [0.0, 0.1, 0.2, 0.3],
                            overlaps=[3, 8] if quick else [1, 5], wc=[(True, False)] if quick else [(True, False), (True, True)]))
    # one long adapter (> 64 k-mer bits -> multi-mask or fall-back finder)
    long_a = "ACGGTCAATGCCTAGGATCCGTTAACGGCTAGCATTGACCGTAGGCTTAACCGGATATCGCGTAATGCCA"
    for t in ("back", "front", "anywhere", "prefix", "suffix"):
        out.append(dict(fam="Clong", type=t, adapter=long_a, cidx=-1, depth=1, rates=[0.0, 0.01, 0.05, 0.1], overlaps=[3],
                        wc=[(True, False)]))
    return out


def shards(tier, which):
    sh = family_a(tier, which) + family_b(tier, which) + family_c(tier, which)
    for s in sh:
        s["which"] = which
    # heavy shards first
    return sh


# --------------------------------------------------------------------------------------------
# worker
# --------------------------------------------------------------------------------------------

_CREADS = {}


def _get_reads(d):
    if d["fam"] in ("C", "Clong"):
        key = (d["adapter"], d["depth"], d.get("small", False))
        if key not in _CREADS:
            if d["fam"] == "Clong":
                a = d["adapter"]
                reads = set()
                for L in (5, 20, 40, len(a)):
                    for core in (a[:L], a[len(a) - L:]):
                        for e in _edits(core, "ACGT") if L <= 20 else {core, core[:7] + core[8:], core[:9] + "T" + core[9:]}:
                            for pre in ("", "GGA"):
                                for suf in ("", "TTG"):
                                    reads.add(pre + e + suf)
                # occurrences far from both read ends (the short overlap k-mers cannot see them), exact and with ONE SUBSTITUTION IN
                # EACH OF c EQUAL CHUNKS for c = 1..8 (the pigeonhole bound of the k-mer heuristic), chunks taken over the whole core
                # and over its first 64 bases
                junk5 = "TGCATCCGATTGCAGGCTTAACGTACCGGTTAGCATGCAATCGGCTAAGTCCGATTGACCTAGGCATTAGCCGATACGGTTAACCGGATAA"
                junk3 = "CCTTAGGCATTGCAAGCTTGGCCAATCGGATCCTAAGGCTTACGGATTCCGGAATGCCTTAAGGCCATTGGCAATTCCGGTTAAGCTAGC"
                nxt = {"A": "C", "C": "G", "G": "T", "T": "A"}
                for L in (40, 64, 65, len(a)):
                    for core in (a[:L], a[len(a) - L:]):
                        variants = {core}
                        for span in (len(core), min(64, len(core))):
                            for c in range(1, 9):
                                t = list(core)
                                for i in range(c):
                                    pos = int((i + 0.5) * span / c)
                                    t[pos] = nxt[t[pos]]
                                variants.add("".join(t))
                        for e in variants:
                            for pre, suf in (("", junk3), (junk5, ""), (junk5, junk3), ("GGA", junk3[:30])):
                                reads.add(pre + e + suf)
                _CREADS[key] = refalign.ReadSet(sorted(reads, key=lambda x: (len(x), x)))
            else:
                _CREADS[key] = refalign.ReadSet(family_c_reads(d["adapter"], d["depth"], small=d.get("small", False)))
        return _CREADS[key]
    return readset(d["ralpha"], d["nmax"])


def _ref_kmers_present(pk, seq, aw, rw):
    """Definition from the docstring of create_positions_and_kmers/KmerFinder: some k-mer of some
    (start, stop, kmers) entry occurs in seq[start:stop] under the wildcard rules."""
    n = len(seq)
    for start, stop, kmers in pk:
        s = start if start >= 0 else max(0, n + start)
        e = n if stop is None else (stop if stop >= 0 else n + stop)
        e = min(e, n)
        for kmer in kmers:
            L = len(kmer)
            for p in range(s, e - L + 1):
                if all(refalign.char_eq(kmer[i], seq[p + i], aw, rw) for i in range(L)):
                    return True
    return False


def run_shard(d):
    import ctypes

    from cutadapt.adapters import MockKmerFinder

    which = d["which"]
    rs = _get_reads(d)
    reads = rs.reads
    nreads = rs.n
    cls, kw, ptype = classes()[d["type"]]
    res = dict(evals=0, configs=0, matches=0, admissible=0, weak_unjudged=0, absent=0, kmer_checked=0, kmer_false_pos=0,
               viol=common.Viols(cap=3), samples=[], real_finders=0)
    V = res["viol"]
    a = d["adapter"]
    stats = (ctypes.c_longlong * 3)()
    resbuf = rs.res
    seen_cfg = set()
    for aw_flag, rw in d["wc"]:
        for rate in d["rates"]:
            for ovl in d["overlaps"]:
                for indels in (True, False):
                    try:
                        ad = cls(a, max_errors=rate, min_overlap=ovl, indels=indels, adapter_wildcards=aw_flag,
                                 read_wildcards=rw, name="x", **kw)
                    except Exception:  # invalid configuration (e.g. non-IUPAC with wildcards): not in scope
                        continue
                    cfg = dict(type=d["type"], adapter=a, rate=rate, min_overlap=ovl, indels=indels,
                               adapter_wildcards=aw_flag, read_wildcards=rw)
                    aw = ad.adapter_wildcards
                    mo = ad.min_overlap
                    key = (aw, rw, rate, mo, indels)
                    if key in seen_cfg:
                        continue
                    seen_cfg.add(key)
                    real = not isinstance(ad.kmer_finder, MockKmerFinder)
                    res["configs"] += 1
                    if which == "C07":
                        if not real:
                            continue
                        res["real_finders"] += 1
                        _c07(ad, cls, kw, cfg, reads, res, aw, rw)
                        continue
                    passes = [("own", False)] if which == "C02" else ([("own", False), ("mock", True)] if real else [("own", False)])
                    if which == "C02" and real and (rw or aw):
                        passes = passes + [("own+pickled", "pickle")]  # what a worker process gets under the spawn start method
                    for label, mock in passes:
                        if mock == "pickle":
                            ad = pickle.loads(pickle.dumps(ad))
                        elif mock:
                            # second pass: a pickle round trip of the adapter (what a worker process gets under the
                            # spawn start method) with the prefilter switched off
                            ad = pickle.loads(pickle.dumps(ad))
                            ad.kmer_finder = MockKmerFinder()
                            label = "mock+pickled"
                        match_to = ad.match_to
                        k = 0
                        for r in reads:
                            mt = match_to(r)
                            if mt is None:
                                resbuf[k] = 0
                            else:
                                resbuf[k] = 1
                                resbuf[k + 1] = mt.astart
                                resbuf[k + 2] = mt.astop
                                resbuf[k + 3] = mt.rstart
                                resbuf[k + 4] = mt.rstop
                                resbuf[k + 5] = mt.score
                                resbuf[k + 6] = mt.errors
                            k += 7
                        res["evals"] += nreads
                        mode = 1 if which == "C01" else 2
                        stats[0] = stats[1] = stats[2] = 0
                        bad = refalign.judge(rs, ptype, ad.sequence, indels, mo, aw, ad.max_error_rate, aw, rw, mode, stats)
                        res["matches"] += stats[0]
                        res["admissible"] += stats[1]
                        res["weak_unjudged"] += stats[2]
                        for kidx, flag, adm in bad:
                            got = None if not resbuf[7 * kidx] else list(resbuf[7 * kidx + 1: 7 * kidx + 7])
                            if flag < 16:
                                V.append((f"{d['type']}:{refalign.C01_REASON[flag].split()[0]}{flag}",
                                          refalign.C01_REASON[flag],
                                          dict(cfg, read=reads[kidx], finder=label, match=got)))
                            else:
                                V.append((_c02_sig(d["type"], flag, indels, len(reads[kidx]), len(a), mo),
                                          refalign.C02_REASON[flag],
                                          dict(cfg, read=reads[kidx], match=got,
                                               admissible=dict(count=adm[0], exact=adm[1], leftmost_copy=adm[2],
                                                               rightmost_copy=adm[3], example=list(adm[4:9])))))
                    if len(res["samples"]) < 1 and stats[0]:
                        for kidx in range(nreads - 1, -1, -1):
                            if resbuf[7 * kidx]:
                                res["samples"].append(dict(cfg, read=reads[kidx], match=list(resbuf[7 * kidx + 1: 7 * kidx + 7])))
                                break
    return res


def _c02_sig(t, flag, indels, n, m, mo):
    return f"{t}:{'indels' if indels else 'noindels'}:c02-{flag - 16}"


def _c07(ad, cls, kw, cfg, reads, res, aw, rw):
    from cutadapt.adapters import MockKmerFinder

    V = res["viol"]
    ad2 = cls(cfg["adapter"], max_errors=cfg["rate"], min_overlap=cfg["min_overlap"], indels=cfg["indels"],
              adapter_wildcards=cfg["adapter_wildcards"], read_wildcards=cfg["read_wildcards"], name="x", **kw)
    ad2.kmer_finder = MockKmerFinder()
    m1, m2 = ad.match_to, ad2.match_to
    # with wildcards in play, also the adapter as a worker process gets it (pickle round trip), prefilter included
    m3 = pickle.loads(pickle.dumps(ad)).match_to if (cfg["read_wildcards"] or ad.adapter_wildcards or len(cfg["adapter"]) > 8) else None
    kp = ad.kmer_finder.kmers_present
    rightmost = cfg["type"].startswith("rightmost")
    m = len(cfg["adapter"])
    for r in reads:
        a1 = m1(r)
        a2 = m2(r)
        res["evals"] += 1
        present = kp(r[::-1] if rightmost else r)
        if not present:
            res["absent"] += 1
        if a2 is not None:
            res["matches"] += 1
        t1 = None if a1 is None else (a1.astart, a1.astop, a1.rstart, a1.rstop, a1.score, a1.errors)
        t2 = None if a2 is None else (a2.astart, a2.astop, a2.rstart, a2.rstop, a2.score, a2.errors)
        if m3 is not None and t1 == t2:
            a3 = m3(r)
            t3 = None if a3 is None else (a3.astart, a3.astop, a3.rstart, a3.rstop, a3.score, a3.errors)
            if t3 != t2:
                V.append((f"{cfg['type']}:pickled", "after a pickle round trip of the adapter the result with the k-mer prefilter differs "
                          "from the result of the full alignment", dict(cfg, read=r, pickled_with_prefilter=t3, alignment_only=t2)))
        if t1 != t2:
            cls_ = "short-read" if len(r) < m else "window"
            V.append((f"{cfg['type']}:{'indels' if cfg['indels'] else 'noindels'}:{cls_}",
                      "result with the k-mer prefilter differs from the result of the full alignment",
                      dict(cfg, read=r, with_prefilter=t1, alignment_only=t2)))
