"""Realistic-size inputs for the conformance passes of C06 and C12 (real OS processes, default --buffer-size).

The exhaustive explorations run on tiny files with tiny buffers; a few defects need SIZE instead: an output chunk above 4 MiB, more
than 256 adapters, more than one 4 MB input chunk per worker, counters that only matter after a thousand matches, pipes that fill.
These runs are conformance only (one free-running schedule each): several cores must give the one-core result.  Everything is
generated from fixed seeds."""
import os
import random

TRUSEQ1 = "AGATCGGAAGAGCACACGTCTGAACTCCAGTCA"
TRUSEQ2 = "AGATCGGAAGAGCGTCGTGTAGGGAAAGAGTGT"


def _seq(rnd, n):
    return "".join(rnd.choice("ACGT") for _ in range(n))


def _qual(rnd, n):
    # binned Illumina-like qualities with a degrading tail
    q = []
    for i in range(n):
        p = i / max(1, n)
        q.append(rnd.choice("FFFFF:,#") if p > 0.8 else rnd.choice("FFFFFFF:"))
    return "".join(q)


def header(i, mate):
    return f"A00123:45:HXXXXXXXX:1:{1101 + i // 5000}:{1000 + i % 5000}:{2000 + (i * 7) % 3000} {mate}:N:0:ACGTACGT"


def paired(path1, path2, n=36000, seed=11):
    """150/100-nt pairs, inserts of 60-200 nt with read-through into the TruSeq adapters, some poly-A tails."""
    rnd = random.Random(seed)
    with open(path1, "w") as f1, open(path2, "w") as f2:
        for i in range(n):
            ins = _seq(rnd, rnd.choice((60, 90, 120, 149, 200)))
            if i % 11 == 3:
                ins = ins[: len(ins) // 2] + "A" * (len(ins) - len(ins) // 2)
            r1 = (ins + TRUSEQ1 + _seq(rnd, 150))[:150]
            rc = ins[::-1].translate(str.maketrans("ACGT", "TGCA"))
            r2 = (rc + TRUSEQ2 + _seq(rnd, 100))[:100]
            f1.write(f"@{header(i, 1)}\n{r1}\n+\n{_qual(rnd, 150)}\n")
            f2.write(f"@{header(i, 2)}\n{r2}\n+\n{_qual(rnd, 100)}\n")


def single_ties(path, adapters, n=46000, seed=12):
    """100-nt reads ending in a prefix of one of several adapters that share a long common prefix (ties), in blocks whose adapter mix
    changes along the file."""
    rnd = random.Random(seed)
    with open(path, "w") as f:
        for i in range(n):
            block = (i * 4) // n
            a = adapters[(block * 3 + rnd.randrange(3)) % len(adapters)]
            k = rnd.choice((0, 12, 20, 30, 40, len(a)))
            s = (_seq(rnd, 100 - min(k, 100)) + a[:k])[:100] if k else _seq(rnd, 100)
            f.write(f"@{header(i, 1)}\n{s}\n+\n{_qual(rnd, len(s))}\n")


def barcoded(path, barcodes, n=20000, seed=13):
    rnd = random.Random(seed)
    with open(path, "w") as f:
        for i in range(n):
            b = barcodes[rnd.randrange(len(barcodes))] if i % 5 else _seq(rnd, 12)
            s = b + _seq(rnd, 88)
            f.write(f"@{header(i, 1)}\n{s}\n+\n{_qual(rnd, 100)}\n")


def linked(path, front, back, n=40000, seed=14):
    rnd = random.Random(seed)
    with open(path, "w") as f:
        for i in range(n):
            kind = i % 4
            core = _seq(rnd, 60)
            s = {0: front + core + back, 1: front + core, 2: core + back, 3: core}[kind] + "A" * (i % 40) + _seq(rnd, 10)
            s = s[:150]
            f.write(f"@{header(i, 1)}\n{s}\n+\n{_qual(rnd, len(s))}\n")


def barcodes(n, length=12, seed=15):
    rnd = random.Random(seed)
    out = set()
    while len(out) < n:
        out.add(_seq(rnd, length))
    return sorted(out)
