"""Common driver for the three checks that share the alignment sweep (C01, C02, C07)."""
import json

from .. import alignsweep, common, histsweep, refalign


def selfcheck_reference():
    """Cross-check the C reference against its pure-Python twin on a small scope (every run)."""
    n = 0
    for aw, rw in ((False, False), (True, False), (False, True), (True, True)):
        for a in alignsweep.strings("ANR", 3, 1):
            for r in alignsweep.strings("AGNa", 3):
                for indels in (True, False):
                    c = refalign.distance(a, r, aw, rw, indels)
                    p = refalign.py_distance(a, r, aw, rw, indels)
                    n += 1
                    if c != p:
                        raise common.HarnessError(f"C reference and Python twin disagree on {a!r} {r!r} {aw} {rw} {indels}: {c} {p}")
    return n


def run(prop, tier, rule, nontrivial_key, assumptions):
    R = common.Result(prop, tier, "exploration")
    refalign.build()
    twin = selfcheck_reference()
    sh = alignsweep.shards(tier, prop)
    out = common.pmap(alignsweep.MOD, "run_shard", sh, progress=500)
    tot = {}
    fam = {}
    for d, r in zip(sh, out):
        for k, v in r.items():
            if isinstance(v, int):
                tot[k] = tot.get(k, 0) + v
        fam[d["fam"]] = fam.get(d["fam"], 0) + r["evals"]
        for s in r["samples"]:
            if len(R.samples) < 12 and (len(R.samples) < 4 or d["fam"] not in [x.get("family") for x in R.samples]):
                R.sample(dict(s, family=d["fam"]))
        for sig, what, case in r["viol"]:
            R.violation(sig, what, case)
    # family H: operation sequences of depth 2 on one long-lived adapter object (every ordered pair of reads consecutively)
    histsweep.selfcheck()
    hsh = histsweep.shards(tier, prop) if prop != "C02" else []  # same oracle as in C01: not repeated for C02
    hout = common.pmap(histsweep.MOD, "run_shard", hsh)
    hev = 0
    for d, r in zip(hsh, hout):
        hev += r["evals"]
        tot["history_pairs"] = tot.get("history_pairs", 0) + r["pairs"]
        tot["history_configs"] = tot.get("history_configs", 0) + r["configs"]
        for sig, what, case in r["viol"]:
            R.violation(sig, what, case)
    tot["evals"] = tot.get("evals", 0) + hev
    fam["H(history)"] = hev
    # family I: matches reported THROUGH THE ADAPTER INDEX (several anchored adapters) - the same obligations apply to them
    if prop in ("C01", "C02"):
        from . import c08

        ish = [dict(kind="pairs", first=a, prefix=pfx, tier=tier) for a in (("AAA", "AACA") if tier == "quick" else ("AAA", "AAC", "ACG", "AACA", "ACGA")) for pfx in (True, False)]
        iout = common.pmap("vf.checks.c08", "run_shard", ish)
        want = ("coords", "errors") if prop == "C01" else ("unique-missed",)
        ievals = 0
        for d, r in zip(ish, iout):
            ievals += r["evals"]
            tot["matches" if prop == "C01" else "admissible"] = tot.get("matches" if prop == "C01" else "admissible", 0) + (
                r["matches"] if prop == "C01" else r["clause2"])
            for sig, what, case in r["viol"]:
                if sig in want:
                    R.violation(f"index:{sig}:{'5p' if d['prefix'] else '3p'}", "through the adapter index: " + what, case)
        tot["evals"] = tot.get("evals", 0) + ievals
        fam["I(index)"] = ievals
    if prop == "C01":
        for sig, what, case in cli_configured_parameters():
            R.violation(sig, what, case)
        fam["cli"] = 1
    if prop == "C02":
        vio, n = cli_configured_found()
        for sig, what, case in vio:
            R.violation(sig, what, case)
        fam["cli"] = n
        tot["evals"] = tot.get("evals", 0) + n
    R.counters = dict(tot, evals_by_family=fam, shards=len(sh), reference_twin_cases=twin)
    R.assumptions = assumptions
    nontriv = sum(tot.get(k, 0) for k in nontrivial_key)
    return R.finish(tot.get("evals", 0), nontriv, rule, True,
                    extra=dict(families="A: canonical ACGT adapters x all reads over ACGT; Asym: non-canonical adapters "
                                        "(validates the letter symmetry used in A); B: adapters over ACNR x reads over ACGNa x 4 "
                                        "wildcard switch settings; C: 6 adapters of 12-21 nt + one 70 nt x every read within the "
                                        "stated edit depth of every prefix/suffix/whole adapter with junk flanks; H: every ORDERED PAIR of reads "
                                        "(all reads over ACGT up to length 4 (5) + long reads) as two consecutive calls on one adapter object, "
                                        "answer compared with a second object's standalone answer"))


def cli_configured_parameters():
    """Command-line seam of C01: every match row of the info file must obey the parameters CONFIGURED for the named adapter
    (global -e / -O, inline ;e= ;o=, file-level parameters only for the adapters of that file)."""
    import os

    from .. import clih

    V = []
    wd = clih.fresh_dir("c01cli")
    fa = os.path.join(wd, "primers.fa")
    clih.write_text(fa, ">p1\nTTGACCAGGTAC\n>p2\nGGATCCTTAGCA\n")
    inserts = ["CATCATGTGTGTCATT", "GGGTTTACACACTTGG", "TATATACCGGTTAACC"]
    A = "AGATCGGAAGAGCACACGTC"
    reads = []
    for i in inserts:
        reads += [i + A, i + A[:4], i + A[:3], i + "AGATCGGTAGTGCTCACGTC", i + "AGTTCGGAAGAGCACACGTC", "TTGACCAGGTAC" + i, "TTGTCCTGGTAC" + i + A,
                  "GTAC" + i, "AC" + i + "AGAT", i + "AGATCGGAAGAGCCACGTC", i]
    recs = [(f"r{k}", s_, "I" * len(s_)) for k, s_ in enumerate(reads)]
    inp = os.path.join(wd, "in.fq")
    clih.write_text(inp, clih.fastq_text(recs))
    info = os.path.join(wd, "info.tsv")
    conf = {  # adapter name -> (sequence, configured rate, configured min overlap)
        "ill": (A, 0.1, 5), "p1": ("TTGACCAGGTAC", 0.3, 2), "p2": ("GGATCCTTAGCA", 0.3, 2), "inl": ("CCGGTTAACC", 0.2, 4)}
    for order in (["-g", f"file:{fa};e=0.3;o=2", "-a", f"ill={A}", "-a", "inl=CCGGTTAACC;e=0.2;o=4"],
                  ["-a", f"ill={A}", "-a", "inl=CCGGTTAACC;e=0.2;o=4", "-g", f"file:{fa};e=0.3;o=2"]):
        argv = ["-e", "0.1", "-O", "5", "--times", "2"] + order + ["--info-file", info, "-o", os.path.join(wd, "o.fq"), inp]
        r = clih.run_cli(argv)
        shown = [a if not a.startswith("/") else os.path.basename(a) for a in argv]
        if r.exit != 0:
            V.append(("cli:failed", f"cutadapt failed: {r.exit} {r.exc} {r.errors()[:1]}", dict(argv=shown)))
            continue
        with open(info) as fh:
            for ln in fh:
                row = ln.rstrip("\n").split("\t")
                if len(row) < 8 or row[1] == "-1":
                    continue
                errors, mid, name = int(row[1]), row[5], row[7]
                seq, rate, ovl = conf[name]
                ok = False
                for a in range(len(seq) + 1):
                    for b in range(a + 1, len(seq) + 1):
                        if b - a >= min(ovl, len(seq)) and refalign.distance(seq[a:b], mid, False, False, True) == errors and errors <= rate * (b - a):
                            ok = True
                if not ok:
                    V.append(("cli:configured", f"match of adapter {name} ({errors} errors, matched {mid!r}) is not within the rate {rate} / minimum "
                              f"overlap {ovl} configured for that adapter", dict(argv=shown, row=row[:8])))
    clih.rmtree(wd)
    return V


def replay(prop, path):
    with open(path) as f:
        v = json.load(f)
    print(json.dumps(v, indent=1))
    c = v["case"]
    if c.get("history"):
        return histsweep.replay(prop, c)
    cls, kw, ptype = alignsweep.classes()[c["type"]]
    from cutadapt.adapters import MockKmerFinder

    def mk(mock):
        ad = cls(c["adapter"], max_errors=c["rate"], min_overlap=c["min_overlap"], indels=c["indels"],
                 adapter_wildcards=c["adapter_wildcards"], read_wildcards=c["read_wildcards"], name="x", **kw)
        if mock:
            import pickle
            ad = pickle.loads(pickle.dumps(ad))
            ad.kmer_finder = MockKmerFinder()
        return ad

    def tup(m):
        return None if m is None else [m.astart, m.astop, m.rstart, m.rstop, m.score, m.errors]

    own, mock = tup(mk(False).match_to(c["read"])), tup(mk(True).match_to(c["read"]))
    print("match_to with own finder:", own, " with always-true finder:", mock)
    if prop == "C07":
        return 0 if own == mock else 1
    import ctypes
    ad = mk(str(c.get("finder")).startswith("mock"))
    rs = refalign.ReadSet([c["read"]])
    m = ad.match_to(c["read"])
    t = tup(m)
    rs.res[0] = 0 if t is None else 1
    for i, x in enumerate(t or []):
        rs.res[1 + i] = x
    stats = (ctypes.c_longlong * 3)()
    bad = refalign.judge(rs, ptype, ad.sequence, c["indels"], ad.min_overlap, ad.adapter_wildcards, ad.max_error_rate,
                         ad.adapter_wildcards, c["read_wildcards"], 1 if prop == "C01" else 2, stats)
    print("reference verdict:", bad or "fine")
    return 1 if bad else 0


def cli_configured_found():
    """Command-line seam of C02: what is found through the command line is what the adapters find when they are built DIRECTLY
    (class constructors, no specification parser) with the parameters the user configured for each of them - global -e/-O,
    inline ;e= ;o=, file-level parameters for the adapters of that file only, R1 options for R1 and R2 options for R2."""
    import os

    from cutadapt.adapters import BackAdapter, FrontAdapter

    from .. import clih, refpipe

    V = []
    n = 0
    wd = clih.fresh_dir("c02cli")
    fa = os.path.join(wd, "primers.fa")
    P1, P2, A, INL = "TTGACCAGGTAC", "GGATCCTTAGCA", "AGATCGGAAGAGCACACGTC", "CCGGTTAACC"
    clih.write_text(fa, f">p1\n{P1}\n>p2\n{P2}\n")
    inserts = ["CATCATGTGTGTCATT", "GGGTTTACACACTTGG", "TATATACCGGTTAACC"]
    reads = []
    for i in inserts:
        reads += [i + A, i + A[:7], i + A[:4], i + A[:3], i + "AGATCGGTAGAGCACACGTC", P1 + i, P1[4:] + i, "GTAC" + i, "TTGTCCAGGTAC" + i + A[:6],
                  i + INL[:5], i + INL[:3], i + "CCGGTAAACC" + "TT", i + P2 + "AC", P2[6:] + i + A[:5], i]
    recs = [(f"r{k}", s_, "I" * len(s_)) for k, s_ in enumerate(reads)]
    inp = os.path.join(wd, "in.fq")
    clih.write_text(inp, clih.fastq_text(recs))
    out, out2 = os.path.join(wd, "o.fq"), os.path.join(wd, "o2.fq")
    GE, GO = 0.1, 5
    for fe, fo in ((0.3, 2), (0.0, 10)):
        file_spec = f"file:{fa};e={fe};o={fo}"
        file_ads = lambda: [FrontAdapter(P1, max_errors=fe, min_overlap=fo, name="p1"), FrontAdapter(P2, max_errors=fe, min_overlap=fo, name="p2")]
        ill = lambda: BackAdapter(A, max_errors=GE, min_overlap=GO, name="ill")
        inl = lambda: BackAdapter(INL, max_errors=0.2, min_overlap=4, name="inl")
        for label, order, ads in (
                ("file first", ["-g", file_spec, "-a", f"ill={A}", "-a", f"inl={INL};e=0.2;o=4"], file_ads() + [ill(), inl()]),
                ("file last", ["-a", f"ill={A}", "-a", f"inl={INL};e=0.2;o=4", "-g", file_spec], [ill(), inl()] + file_ads())):
            for times in (1, 2):
                argv = ["-e", str(GE), "-O", str(GO), "--times", str(times)] + order + ["-o", out, inp]
                r = clih.run_cli(argv)
                shown = [a if not a.startswith("/") else os.path.basename(a) for a in argv]
                if r.exit != 0:
                    V.append(("cli:failed", f"cutadapt failed: {r.exit} {r.exc} {r.errors()[:1]}", dict(argv=shown)))
                    continue
                got = clih.read_records(out)[1]
                for (nm, s_, q), g in zip(recs, got):
                    n += 1
                    matches, kept = refpipe.adapter_rounds(ads, s_, times)
                    es, _ = refpipe.apply_action(s_, q, matches, kept, "trim")
                    if g[1] != es:
                        V.append(("cli:configured-found", "through the command line the read is not trimmed as the adapters built with the "
                                  f"configured parameters trim it ({label}; file-level e={fe} o={fo}, global e={GE} O={GO})",
                                  dict(argv=shown, read=s_, got=g[1], expected=es, applied=[m.name for m in matches])))
                        break
        # paired-end: parameters of an R1 file: specification must not reach the R2 adapters
        argv = ["-e", str(GE), "-O", str(GO), "-g", file_spec, "-A", f"ill={A}", "-o", out, "-p", out2, inp, inp]
        r = clih.run_cli(argv)
        shown = [a if not a.startswith("/") else os.path.basename(a) for a in argv]
        if r.exit != 0:
            V.append(("cli:failed", f"cutadapt failed: {r.exit} {r.exc} {r.errors()[:1]}", dict(argv=shown)))
        else:
            got2 = clih.read_records(out2)[1]
            ads2 = [ill()]
            for (nm, s_, q), g in zip(recs, got2):
                n += 1
                matches, kept = refpipe.adapter_rounds(ads2, s_, 1)
                es, _ = refpipe.apply_action(s_, q, matches, kept, "trim")
                if g[1] != es:
                    V.append(("cli:configured-found:r2", "R2 is not trimmed as its adapter built with the configured (global) parameters trims it",
                              dict(argv=shown, read=s_, got=g[1], expected=es)))
                    break
    clih.rmtree(wd)
    return V, n
