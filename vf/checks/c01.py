"""C01 - every reported adapter match is a genuine, in-tolerance occurrence."""
from . import _align_common as AC

PROP = "C01"


def run(tier):
    return AC.run(PROP, tier,
                  "every (adapter type incl. ';anywhere' variants, adapter, error-rate profile, minimum overlap, indels, wildcard "
                  "switches, read) of the stated families; match_to is called with the adapter's own k-mer finder and with the "
                  "always-true finder; every reported match is judged by the C reference (interval bounds, placement predicate of the "
                  "type, overlap, errors == unbanded edit/Hamming distance of the two intervals, errors <= rate x non-N aligned adapter "
                  "bases); non-trivial = a match was reported",
                  ["matches"],
                  ["letter symmetry of A,C,G,T (validated on family Asym)", "error-rate profiles: the rate is only used as "
                   "floor(rate x L) / cost <= rate x L", "C reference cross-checked against a Python twin at every run"])


def replay(path):
    return AC.replay(PROP, path)
