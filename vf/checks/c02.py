"""C02 - admissible adapter occurrences are found; exact copies never survive."""
from . import _align_common as AC

PROP = "C02"


def run(tier):
    return AC.run(PROP, tier,
                  "same families as C01, match_to as users get it (with the adapter's own k-mer prefilter); per "
                  "(configuration, read) the C reference enumerates ALL admissible occurrences (one full DP per admissible start) and "
                  "judges: exact occurrence => match; any admissible occurrence => match (indels off, or type cannot skip the adapter "
                  "start); leftmost/rightmost exact-copy cut rules; exact anchored removal; non-trivial = admissible set non-empty",
                  ["admissible"],
                  ["letter symmetry of A,C,G,T (validated on family Asym)", "error-rate profiles", "C reference cross-checked "
                   "against a Python twin at every run"])


def replay(path):
    return AC.replay(PROP, path)
