"""C03 - output reads are aligned slices of the input; qualities stay in step.

Reads carry POSITION-UNIQUE qualities, so the written quality string identifies the slice (i, j) of the input that
a stage kept; the written sequence must then be exactly in.seq[i:j] (of the reverse complement / of the mate when
the record says so), up to the documented base changes of mask / lowercase, which are judged differentially
against what the trim action keeps.  Seams: every modifier class on all short reads; cli.main on all subsets of
the read-modifying options."""
import itertools
import json
import os

from .. import alignsweep, clih, common, refops

PROP = "C03"
MOD = "vf.checks.c03"

MENU = [
    ("back", "b1=ACG"), ("back", "b2=ACGT"), ("front", "f1=ACG"), ("front", "f2=TAC"), ("anywhere", "w1=CGA"), ("front", "p1=^AC"),
    ("back", "s1=GT$"), ("back", "n1=GTAX"), ("front", "r1=AC;rightmost"), ("front", "x1=XTAC"), ("back", "l1=^AC...GT"),
    ("front", "l3=AC...GT"),
]
# sets of several anchored adapters: searched through the adapter index (index=True)
INDEXED_SETS = [("s1", "s2"), ("p1", "p2"), ("s1", "s2", "b1"), ("p1", "p2", "s1", "s2")]
EXTRA = {"s2": ("back", "s2=CAG$"), "p2": ("front", "p2=^TGC"), "b1": ("back", "b1=ACG"), "s1": ("back", "s1=GT$"), "p1": ("front", "p1=^AC")}
LOWQ = "!\"#$%&'()*"           # Q0..Q9
HIGHQ = "".join(chr(c) for c in range(53, 127))  # Q20..Q93


def uq(n, low=(), mate=0):
    """Position-unique quality string: low-quality characters at the given positions. The two mates use disjoint characters."""
    lowq = LOWQ[:5] if mate == 0 else LOWQ[5:]
    highq = HIGHQ[:37] if mate == 0 else HIGHQ[37:]
    out = []
    li = hi = 0
    for i in range(n):
        if i in low:
            out.append(lowq[li % len(lowq)])
            li += 1
        else:
            out.append(highq[hi % len(highq)])
            hi += 1
    return "".join(out)


def find_slice(outq, inq):
    """(i, j) such that inq[i:j] == outq, using uniqueness of the characters; None if it is not a contiguous slice."""
    if outq == "":
        return (0, 0)
    i = inq.find(outq[0])
    if i < 0 or inq[i:i + len(outq)] != outq:
        return None
    return (i, i + len(outq))


def make(specs, rate=0.34, ovl=2):
    from cutadapt.parser import make_adapters_from_specifications

    return make_adapters_from_specifications(list(specs), dict(max_errors=rate, min_overlap=ovl, read_wildcards=False,
                                                              adapter_wildcards=True, indels=True))


def shards(tier):
    combos = [(i,) for i in range(len(MENU))] + [c for k, c in enumerate(itertools.permutations(range(len(MENU)), 2))
                                                  if tier == "thorough" or k % 4 == 1]
    n = 40
    sh = [dict(kind="cutter", tier=tier, combos=combos[i::n]) for i in range(n)]
    sh += [dict(kind="cutter", tier=tier, combos=[c], index=True) for c in INDEXED_SETS]
    sh += [dict(kind="simple", tier=tier, part=i) for i in range(6)]
    sh += [dict(kind="paircutter", tier=tier, part=i) for i in range(4)]
    sh += [dict(kind="pairrc", tier=tier, part=i) for i in range(4)]
    sh += [dict(kind="cli", tier=tier, part=i, parts=12) for i in range(12)]
    return sh


def run_shard(d):
    return {"cutter": cutter_shard, "simple": simple_shard, "paircutter": paircutter_shard, "cli": cli_shard,
            "pairrc": pairrc_shard}[d["kind"]](d)


def _res():
    return dict(evals=0, nontrivial=0, viol=common.Viols(cap=3), samples=[])


def judge_action(V, cfg, action, read, q, out, trim_slice, last_match, tag=""):
    """Shared judgement of one stage output against the input (same orientation)."""
    n = len(read)
    if len(out.sequence) != len(out.qualities):
        V.append((f"{tag}{action}:length", "sequence and qualities have different lengths", dict(cfg, read=read, got=[out.sequence, out.qualities])))
        return
    if action in ("mask", "lowercase", "none"):
        if out.qualities != q or len(out.sequence) != n:
            V.append((f"{tag}{action}:length", f"--action={action} must keep length and qualities", dict(cfg, read=read, got=[out.sequence, out.qualities])))
            return
        a, b = trim_slice
        if action == "none":
            exp = read
        elif action == "mask":
            exp = "N" * a + read[a:b] + "N" * (n - b)
        else:
            exp = read[:a].lower() + read[a:b].upper() + read[b:].lower()
        if out.sequence != exp:
            V.append((f"{tag}{action}:bases", f"--action={action}: base changes are not exactly outside what trim keeps {trim_slice}",
                      dict(cfg, read=read, got=out.sequence, expected=exp)))
        return
    sl = find_slice(out.qualities, q)
    if sl is None:
        V.append((f"{tag}{action}:qual-slice", "written qualities are not a contiguous slice of the input qualities",
                  dict(cfg, read=read, qualities=q, got=[out.sequence, out.qualities])))
        return
    i, j = sl
    if out.sequence != read[i:j]:
        V.append((f"{tag}{action}:seq-slice", f"qualities are the slice [{i}:{j}] but the sequence is not the same slice",
                  dict(cfg, read=read, qualities=q, got=[out.sequence, out.qualities])))
        return
    if action in ("retain", "crop") and last_match is not None:
        kind, rstart, rstop, off, front_rstart, total = last_match
        if action == "crop":
            exp = (off + rstart, off + rstop)
        elif kind == "front":
            exp = (off + rstart, n)
        elif kind == "back":
            exp = (0, off + rstop)
        else:
            exp = None
        if exp is not None and (i, j) != exp and out.sequence != "":
            V.append((f"{tag}{action}:interval", f"--action={action} must keep {exp} around the match but kept [{i}:{j}]",
                      dict(cfg, read=read, got=out.sequence)))


def _last_match_descr(matches, ads):
    from cutadapt.adapters import RemoveBeforeMatch, LinkedMatch

    if not matches:
        return None
    m = matches[-1]
    if isinstance(m, LinkedMatch):
        return ("linked", None, None, 0, None, None)
    from cutadapt.adapters import PrefixAdapter, SuffixAdapter

    rstart, rstop = m.rstart, m.rstop
    # an anchored match is at the anchored end by definition: do not take that coordinate from the match itself
    if isinstance(m.adapter, SuffixAdapter):
        rstop = len(m.sequence)
    if isinstance(m.adapter, PrefixAdapter):
        rstart = 0
    return ("front" if isinstance(m, RemoveBeforeMatch) else "back", rstart, rstop, 0, None, None)


def cutter_shard(d):
    from cutadapt.adapters import LinkedAdapter
    from cutadapt.info import ModificationInfo
    from cutadapt.modifiers import AdapterCutter
    from dnaio import SequenceRecord

    res = _res()
    V = res["viol"]
    nmax = 6 if d["tier"] == "quick" else 7
    R = list(alignsweep.strings("ACGT", nmax)) + ["acgtac", "ACgTaC", "NNACGT", "ACGTNN"]
    use_index = bool(d.get("index"))
    for combo in d["combos"]:
        specs = [EXTRA[i] for i in combo] if use_index else [MENU[i] for i in combo]
        ads = make(specs)
        linked = any(isinstance(a, LinkedAdapter) for a in ads)
        for times in (1, 2, 3):
            trimc = AdapterCutter(ads, times=times, action="trim", index=use_index)
            for action in ("trim", "none", "mask", "lowercase", "retain", "crop"):
                if action in ("retain", "crop") and times > 1:
                    continue
                if linked and action in ("mask", "crop"):
                    continue
                cut = AdapterCutter(ads, times=times, action=None if action == "none" else action, index=use_index)
                cfg = dict(adapters=[s for _, s in specs], types=[t for t, _ in specs], times=times, index=use_index)
                for r in R:
                    q = uq(len(r))
                    res["evals"] += 1
                    rec = SequenceRecord("r", r, q)
                    info = ModificationInfo(rec)
                    out = cut(rec, info)
                    src = r.upper() if action == "lowercase" else r
                    t = trimc(SequenceRecord("r", r, q), ModificationInfo(rec))
                    ts = find_slice(t.qualities, q)
                    if ts is None:
                        V.append(("trim:qual-slice", "trim result is not a contiguous slice", dict(cfg, read=r, got=[t.sequence, t.qualities])))
                        continue
                    if info.matches:
                        res["nontrivial"] += 1
                    judge_action(V, cfg, action, src if action == "lowercase" else r, q, out, ts,
                                 _last_match_descr(info.matches, ads) if times == 1 else None)
                    if out.name != "r":
                        V.append((f"{action}:name", "the adapter stage changed the read name", dict(cfg, read=r, got=out.name)))
        if not res["samples"]:
            res["samples"].append(dict(adapters=[s for _, s in specs], reads=len(R), qualities_of_a_6mer=uq(6)))
    return res


def simple_shard(d):
    from cutadapt.info import ModificationInfo
    from cutadapt.modifiers import (UnconditionalCutter, QualityTrimmer, NextseqQualityTrimmer, PolyATrimmer, Shortener, NEndTrimmer,
                                    ZeroCapper)
    from dnaio import SequenceRecord

    res = _res()
    V = res["viol"]
    nmax = 6 if d["tier"] == "quick" else 7
    alpha = ["ACGT", "AGN", "ANT", "AG", "ACN", "AT"][d["part"]]
    mods = [("cut+2", UnconditionalCutter(2)), ("cut-2", UnconditionalCutter(-2)), ("cut+9", UnconditionalCutter(9)),
            ("q10,10", QualityTrimmer(10, 10)), ("q0,15", QualityTrimmer(0, 15)), ("nextseq10", NextseqQualityTrimmer(10)),
            ("polyA", PolyATrimmer()), ("polyT", PolyATrimmer(revcomp=True)), ("len3", Shortener(3)), ("len-3", Shortener(-3)),
            ("len0", Shortener(0)), ("trimN", NEndTrimmer())]
    for r in alignsweep.strings(alpha, nmax):
        n = len(r)
        lows = [(), tuple(range(0, n, 2)), tuple(range(n - 2, n)) if n >= 2 else (), (0,)]
        for low in lows:
            q = uq(n, low)
            for name, mod in mods:
                res["evals"] += 1
                rec = SequenceRecord("r x", r, q)
                out = mod(rec, ModificationInfo(rec))
                if (out.sequence, out.qualities) != (r, q):
                    res["nontrivial"] += 1
                if len(out.sequence) != len(out.qualities):
                    V.append((f"{name}:length", "sequence and qualities have different lengths", dict(read=r, qualities=q, got=[out.sequence, out.qualities])))
                    continue
                sl = find_slice(out.qualities, q)
                if sl is None or out.sequence != r[sl[0]:sl[1]]:
                    V.append((f"{name}:slice", "output is not an aligned contiguous slice of sequence and qualities",
                              dict(read=r, qualities=q, got=[out.sequence, out.qualities])))
                if out.name != "r x":
                    V.append((f"{name}:name", "a slicing modifier changed the read name", dict(read=r, got=out.name)))
                if (rec.sequence, rec.qualities) != (r, q):
                    V.append((f"{name}:mutated", "the input record was modified in place", dict(read=r)))
    # zero-capping: the only quality change
    for base in (33, 64):
        z = ZeroCapper(quality_base=base)
        chars = [chr(c) for c in (base - 30, base - 1, base, base + 1, base + 40) if c >= 33]
        for qs in itertools.product(chars, repeat=4):
            q = "".join(qs)
            res["evals"] += 1
            rec = SequenceRecord("r", "ACGT", q)
            out = z(rec, ModificationInfo(rec))
            exp = "".join(chr(base) if ord(c) < base else c for c in q)
            if out.sequence != "ACGT" or out.qualities != exp:
                V.append(("zerocap", "zero-capping changed something other than characters below the quality base",
                          dict(qualities=q, base=base, got=[out.sequence, out.qualities])))
    return res


def paircutter_shard(d):
    from cutadapt.info import ModificationInfo
    from cutadapt.modifiers import PairedAdapterCutter
    from dnaio import SequenceRecord

    res = _res()
    V = res["viol"]
    pairs = [([("back", "a=ACG")], [("back", "b=GTT")]), ([("front", "a=ACG")], [("back", "b=CA")]),
             ([("back", "a=ACG"), ("back", "a2=TTG")], [("front", "b=GT"), ("back", "b2=CC")]),
             ([("anywhere", "a=CGA")], [("front", "b=^AC")])]
    specs1, specs2 = pairs[d["part"]]
    R = list(alignsweep.strings("ACGT", 5))
    R2 = R[:: 7]
    for action in ("trim", "none", "mask", "lowercase", "retain", "crop"):
        a1, a2 = make(specs1), make(specs2)
        cut = PairedAdapterCutter(a1, a2, None if action == "none" else action)
        trim = PairedAdapterCutter(make(specs1), make(specs2), "trim")
        cfg = dict(adapters1=[s for _, s in specs1], adapters2=[s for _, s in specs2], seam="PairedAdapterCutter")
        for r1 in R:
            for r2 in R2:
                res["evals"] += 1
                q1, q2 = uq(len(r1)), uq(len(r2), mate=1)[::-1]
                i1 = ModificationInfo(SequenceRecord("r", r1, q1))
                i2 = ModificationInfo(SequenceRecord("r", r2, q2))
                o1, o2 = cut(SequenceRecord("r", r1, q1), SequenceRecord("r", r2, q2), i1, i2)
                t1, t2 = trim(SequenceRecord("r", r1, q1), SequenceRecord("r", r2, q2), ModificationInfo(SequenceRecord("r", r1, q1)),
                              ModificationInfo(SequenceRecord("r", r2, q2)))
                if i1.matches:
                    res["nontrivial"] += 1
                if bool(i1.matches) != bool(i2.matches):
                    V.append((f"pa:{action}:unit", "--pair-adapters changed only one mate", dict(cfg, r1=r1, r2=r2)))
                for r, q, o, t, info in ((r1, q1, o1, t1, i1), (r2, q2, o2, t2, i2)):
                    ts = find_slice(t.qualities, q)
                    if ts is None:
                        V.append(("pa:trim:qual-slice", "trim result is not a contiguous slice", dict(cfg, read=r)))
                        continue
                    judge_action(V, cfg, action, r, q, o, ts, _last_match_descr(info.matches, None), tag="pa:")
    return res



def pairrc_shard(d):
    """(Paired)ReverseComplementer with every action: each mate of the result must be the stated base change of the
    orientation that was chosen, relative to what the trim action keeps in that orientation."""
    from cutadapt.info import ModificationInfo
    from cutadapt.modifiers import AdapterCutter, PairedReverseComplementer, ReverseComplementer
    from dnaio import SequenceRecord

    res = _res()
    V = res["viol"]
    sets = [([("back", "a=ACG")], [("back", "b=GTT")]), ([("front", "a=ACG"), ("back", "a2=CGT")], [("back", "b=CA")]),
            ([("anywhere", "a=CGA")], [("front", "b=^AC"), ("back", "b2=TG")]), ([("back", "a=ACGT")], [("back", "b=ACG"), ("front", "b3=CG")])]
    specs1, specs2 = sets[d["part"]]
    R = list(alignsweep.strings("ACGT", 4 if d["tier"] == "quick" else 5))
    R2 = R[:: 3]
    for action in ("trim", "none", "mask", "lowercase", "retain", "crop"):
        act = None if action == "none" else action
        cfg = dict(adapters1=[s for _, s in specs1], adapters2=[s for _, s in specs2], seam="PairedReverseComplementer")
        rcer = PairedReverseComplementer(AdapterCutter(make(specs1), 1, act, index=False), AdapterCutter(make(specs2), 1, act, index=False))
        t1c, t2c = AdapterCutter(make(specs1), 1, "trim", index=False), AdapterCutter(make(specs2), 1, "trim", index=False)
        for r1 in R:
            for r2 in R2:
                res["evals"] += 1
                q1, q2 = uq(len(r1)), uq(len(r2), mate=1)[::-1]
                i1 = ModificationInfo(SequenceRecord("r", r1, q1))
                i2 = ModificationInfo(SequenceRecord("r", r2, q2))
                try:
                    o1, o2 = rcer(SequenceRecord("r", r1, q1), SequenceRecord("r", r2, q2), i1, i2)
                except Exception as e:  # noqa
                    V.append((f"prc:{action}:exception", f"{type(e).__name__}: {e}", dict(cfg, r1=r1, r2=r2)))
                    continue
                if i1.is_rc:  # the swapped pair was chosen: R1 out comes from r2, R2 out from r1
                    srcs = ((r2, q2, o1, t1c, i1), (r1, q1, o2, t2c, i2))
                else:
                    srcs = ((r1, q1, o1, t1c, i1), (r2, q2, o2, t2c, i2))
                if i1.matches or i2.matches:
                    res["nontrivial"] += 1
                for r, q, o, tc, info in srcs:
                    t, _ = tc.match_and_trim(SequenceRecord("r", r, q))
                    ts = find_slice(t.qualities, q)
                    if ts is None:
                        continue
                    judge_action(V, cfg, action, r, q, o, ts, _last_match_descr(info.matches, None), tag="prc:")
    # single-end ReverseComplementer
    ads = make(specs1 + [("back", "z=GT$")])
    for action in ("trim", "none", "mask", "lowercase", "retain", "crop"):
        act = None if action == "none" else action
        rcer = ReverseComplementer(AdapterCutter(ads, 1, act, index=False))
        tc = AdapterCutter(ads, 1, "trim", index=False)
        cfg = dict(adapters=[s for _, s in specs1] + ["z=GT$"], seam="ReverseComplementer")
        for r in alignsweep.strings("ACGT", 6):
            res["evals"] += 1
            q = uq(len(r))
            info = ModificationInfo(SequenceRecord("r", r, q))
            try:
                o = rcer(SequenceRecord("r", r, q), info)
            except Exception as e:  # noqa
                V.append((f"rc:{action}:exception", f"{type(e).__name__}: {e}", dict(cfg, read=r)))
                continue
            src, sq = (refops.revcomp(r), q[::-1]) if info.is_rc else (r, q)
            t, _ = tc.match_and_trim(SequenceRecord("r", src, sq))
            ts = find_slice(t.qualities, sq)
            if ts is not None:
                judge_action(V, cfg, action, src, sq, o, ts, _last_match_descr(info.matches, None), tag="rc:")
    return res

# ------------------------------------------------------------------------------------------------
# command-line seam
# ------------------------------------------------------------------------------------------------

CLI_MENU = [["-u", "2"], ["-u", "-2"], ["-q", "10"], ["-q", "10,10"], ["--nextseq-trim", "10"], ["-a", "ad=ACGTAC", "-O", "3"],
            ["-g", "fd=TTGCA", "-O", "3"], ["--times", "2"], ["--poly-a"], ["-l", "5"], ["-l", "-5"], ["--trim-n"], ["--zero-cap"],
            ["--revcomp"]]
CLI_MENU_PE = [["-U", "1"], ["-Q", "5"], ["-L", "3"], ["-A", "bd=GGTCA", "-O", "3"], ["--pair-adapters"]]
ACTIONS_CLI = ["trim", "mask", "lowercase", "none", "retain", "crop"]


def cli_corpus():
    seqs = []
    for core in ("TTGCATTGGACCAGTACGTACAAAAAAA", "NNGGATCCTTGCAACGTACGGGGGGNN", "ACGTACTTGCA", "GTACGTGTACGTAAAAAAAAAAAA", "CCCC",
                 "AAAAAAAAAA", "TGCAATTGGCCAAGGGGGGG", "", "ACG", "NNNNN", "TTGCAACGTAC", "GGTCAGGTCATTGACCA", "TGACCGTTGCA"):
        seqs.append(core)
    recs = []
    for i, s in enumerate(seqs):
        n = len(s)
        low = set()
        if i % 3 == 0:
            low |= set(range(max(0, n - 4), n))
        if i % 4 == 1:
            low |= {0, 1}
        low = set(list(sorted(low))[:5])
        recs.append((f"r{i} c{i}", s, uq(n, low)))
    return recs


def cli_shard(d):
    res = _res()
    V = res["viol"]
    recs = cli_corpus()
    recs2 = [(n, refops.revcomp(s)[1:] + "GGTCA"[: len(s) % 6], "") for n, s, q in recs]
    recs2 = [(n, s, uq(len(s), {len(s) - 1} if len(s) > 3 else (), mate=1)[::-1]) for n, s, _ in recs2]
    wd = clih.fresh_dir("c03")
    nm = len(CLI_MENU)
    masks = [m for m in range(1 << nm) if m % d["parts"] == d["part"]]
    if d["tier"] == "quick":
        masks = [m for m in masks if bin(m).count("1") <= 3 or bin(m).count("1") >= nm - 1 or (m * 2654435761 >> 7) % 16 == 0]
    for mask in masks:
        frag = [CLI_MENU[i] for i in range(nm) if mask >> i & 1]
        flat = [x for f in frag for x in f]
        has_ad = "-a" in flat or "-g" in flat
        if "--times" in flat and not has_ad:
            continue
        if "--revcomp" in flat and not has_ad:
            continue
        if flat.count("-u") == 2 and False:
            continue
        if flat.count("-q") == 2 or flat.count("-l") == 2:
            continue
        for layout in ("single", "fasta", "paired"):
            if layout != "single" and mask % 3 != 0:
                continue
            for action in (ACTIONS_CLI if has_ad else ["trim"]):
                if action in ("retain", "crop") and "--times" in flat:
                    continue
                if layout == "fasta" and action not in ("trim", "mask"):
                    continue
                if layout == "paired" and action not in ("trim", "mask", "lowercase"):
                    continue
                extra = []
                if layout == "paired":
                    k = mask % 4
                    extra = [x for i, f in enumerate(CLI_MENU_PE[:4]) if (k + i) % 2 == 0 for x in f]
                    if has_ad and "-A" in extra and "--revcomp" not in flat and "--times" not in flat and mask % 5 == 0:
                        extra += ["--pair-adapters"]
                argv = flat + extra + ([f"--action={action}"] if has_ad else [])
                if layout == "fasta" and any(x in argv for x in ("-q", "--nextseq-trim", "--zero-cap")):
                    continue
                _cli_case(V, res, wd, argv, layout, recs, recs2, action)
                if action in ("mask", "lowercase", "none") and layout != "fasta" and not any(
                        x in argv for x in ("--poly-a", "-l", "--trim-n", "-L")):
                    _cli_differential(V, res, wd, argv, layout, recs, recs2, action)
    clih.rmtree(wd)
    return res


def _cli_case(V, res, wd, argv, layout, recs, recs2, action):
    paired = layout == "paired"
    if layout == "fasta":
        inp = os.path.join(wd, "in.fa")
        clih.write_text(inp, clih.fasta_text([r for r in recs if r[1]]))
        inrecs = [r for r in recs if r[1]]
    else:
        inp = os.path.join(wd, "in.fq")
        clih.write_text(inp, clih.fastq_text(recs))
        inrecs = recs
    out1, out2 = os.path.join(wd, "o1.fa" if layout == "fasta" else "o1.fq"), os.path.join(wd, "o2.fq")
    full = list(argv) + ["-o", out1]
    if paired:
        inp2 = os.path.join(wd, "in2.fq")
        clih.write_text(inp2, clih.fastq_text(recs2))
        full += ["-p", out2, inp, inp2]
    else:
        full += [inp]
    r = clih.run_cli(full)
    cfg = dict(argv=argv, layout=layout)
    if r.exit != 0:
        if r.exit == 2:
            return  # combination rejected by the command line: not in scope
        V.append(("cli:failed", f"cutadapt failed: {r.exit} {r.exc} {r.errors()[:1]}", cfg))
        return
    got1 = clih.read_records(out1)[1]
    got2 = clih.read_records(out2)[1] if paired else None
    if len(got1) != len(inrecs) or (paired and len(got2) != len(recs2)):
        V.append(("cli:count", "number of output records differs from the input (no filter was given)", cfg))
        return
    keep_len = action in ("mask", "lowercase", "none")
    for idx in range(len(inrecs)):
        res["evals"] += 1
        mates = [(inrecs[idx], got1[idx])] + ([(recs2[idx], got2[idx])] if paired else [])
        for mi, (src, o) in enumerate(mates):
            oname, oseq, oqual = o
            name, seq, qual = src
            is_rc = oname.endswith(" rc")
            cand = [(seq, qual)]
            if "--revcomp" in argv:
                if paired:
                    other = recs2[idx] if mi == 0 else inrecs[idx]
                    cand.append((other[1], other[2]))
                else:
                    cand.append((refops.revcomp(seq), qual[::-1] if qual is not None else None))
            if (oseq, oqual) != (seq, qual):
                res["nontrivial"] += 1
            if oqual is not None and len(oseq) != len(oqual):
                V.append(("cli:length", "sequence and qualities have different lengths", dict(cfg, read=list(src), got=list(o))))
                break
            ok = False
            for cs, cq in cand:
                if oqual is None or cq is None:
                    ok = ok or oseq.upper().replace("N", ".") == "" or _is_sub(oseq, cs, keep_len)
                    continue
                zc = "--zero-cap" in argv
                sl = find_slice(oqual, cq)
                if sl is None:
                    continue
                i, j = sl
                if keep_len or action in ("mask", "lowercase"):
                    ok = ok or _same_modulo_case_n(oseq, cs[i:j])
                else:
                    ok = ok or oseq == cs[i:j]
            if not ok:
                V.append(("cli:slice", "written record is not an aligned slice of the input read (or of its reverse complement / mate with --revcomp)",
                          dict(cfg, read=list(src), got=list(o))))
                break



def _run_cli(wd, argv, layout, recs, recs2):
    inp = os.path.join(wd, "in.fq")
    clih.write_text(inp, clih.fastq_text(recs))
    out1, out2 = os.path.join(wd, "d1.fq"), os.path.join(wd, "d2.fq")
    full = list(argv) + ["-o", out1]
    if layout == "paired":
        inp2 = os.path.join(wd, "in2.fq")
        clih.write_text(inp2, clih.fastq_text(recs2))
        full += ["-p", out2, inp, inp2]
    else:
        full += [inp]
    r = clih.run_cli(full)
    if r.exit != 0:
        return None
    return clih.read_records(out1)[1], (clih.read_records(out2)[1] if layout == "paired" else None)


def _cli_differential(V, res, wd, argv, layout, recs, recs2, action):
    """Same command with --action=trim tells, per read, which part trim keeps; the mask / lowercase / none output must differ
    from the input exactly outside that part (and nowhere else)."""
    targv = [a for a in argv if not a.startswith("--action=")] + ["--action=trim"]
    a = _run_cli(wd, argv, layout, recs, recs2)
    t = _run_cli(wd, targv, layout, recs, recs2)
    if a is None or t is None:
        return
    cfg = dict(argv=argv, layout=layout, oracle="differential against --action=trim")
    for mi in (0, 1):
        if a[mi] is None:
            continue
        srcs = recs if mi == 0 else recs2
        other = recs2 if mi == 0 else recs
        for idx, (o, tr) in enumerate(zip(a[mi], t[mi])):
            res["evals"] += 1
            oname, oseq, oqual = o
            if tr[0] != oname:
                continue  # orientation decisions may legitimately differ between actions only if scores differ: not judged here
            sl = find_slice(tr[2], oqual)
            if sl is None:
                V.append((f"cli:{action}:diff", "what --action=trim keeps is not a slice of the masked/lowercased read", dict(cfg, got=list(o), trim=list(tr))))
                return
            i, j = sl
            # the unmodified bases behind this output: identify the source by its qualities
            cands = [srcs[idx], (srcs[idx][0], refops.revcomp(srcs[idx][1]), srcs[idx][2][::-1])]
            if layout == "paired":
                cands.append(other[idx])
            base = None
            for _, cs, cq in cands:
                k = find_slice(oqual, cq)
                if k is not None and "--zero-cap" not in argv:
                    base = cs[k[0]:k[1]]
                    break
            if base is None:
                continue
            if action == "mask":
                exp = "N" * i + base[i:j] + "N" * (len(base) - j)
            elif action == "lowercase":
                exp = base[:i].lower() + base[i:j].upper() + base[j:].lower()
            else:
                exp = base
            if oseq != exp:
                V.append((f"cli:{action}:bases", f"--action={action}: bases differ from the input other than exactly outside what trim keeps [{i}:{j}]",
                          dict(cfg, read=list(srcs[idx]), got=oseq, expected=exp)))
                return

def _same_modulo_case_n(a, b):
    return len(a) == len(b) and all(x == y or x == "N" or x.upper() == y.upper() for x, y in zip(a, b))


def _is_sub(o, s, keep_len):
    if keep_len:
        return _same_modulo_case_n(o, s[: len(o)]) or any(_same_modulo_case_n(o, s[k:k + len(o)]) for k in range(len(s) - len(o) + 1))
    return o in s


def run(tier):
    R = common.Result(PROP, tier, "exploration")
    sh = shards(tier)
    out = common.pmap(MOD, "run_shard", sh)
    tot = {}
    for dd, r in zip(sh, out):
        for k, v in r.items():
            if isinstance(v, int):
                tot[k] = tot.get(k, 0) + v
        tot["evals_" + dd["kind"]] = tot.get("evals_" + dd["kind"], 0) + r["evals"]
        for s in r["samples"]:
            R.sample(s)
        for sig, what, case in r["viol"]:
            R.violation(sig, what, case)
    R.counters = tot
    R.assumptions = ["position-unique quality characters identify the kept slice; which slice is the right one is judged by C09/C10/C13/C14",
                     "mask/lowercase are judged against the slice the trim action keeps for the same configuration"]
    return R.finish(tot.get("evals", 0), tot.get("nontrivial", 0),
                    "modifier seam: AdapterCutter (12-adapter menu, singles + pairs, --times 1-3, all six actions), PairedAdapterCutter (4 "
                    "adapter-pair sets x 6 actions), UnconditionalCutter/QualityTrimmer/NextseqQualityTrimmer/PolyATrimmer/Shortener/"
                    "NEndTrimmer/ZeroCapper on ALL reads up to length 6 (7) over several alphabets with position-unique qualities; cli seam: "
                    "subsets of 14 read-modifying options x actions x {FASTQ, FASTA, paired} on a 13-read corpus; non-trivial = the stage "
                    "changed the read",
                    True)


def replay(path):
    import sys
    return common.replay_by_rerun(sys.modules[__name__], PROP, path)
