"""C04 - each read is written once or counted as filtered once; the totals add up.

Enumeration of (filter subset x discard/untrimmed alternative x redirect files x output kind {plain, {name},
{name1}/{name2}} x layout x report format) through cutadapt.cli.main on a corpus realising every predicate
vector; every output file is parsed independently and the JSON / text / minimal report figures are compared
with sums over the individual reads (vf.routing, vf.refpipe)."""
import json
import os
import re

from .. import clih, common, pairwise, routing

PROP = "C04"
MOD = "vf.checks.c04"

THR = dict(m="5", M="10", max_n=2, max_ee=0.75, max_aer=0.09, discard_casava=True)
FILTER_KEYS = ["m", "M", "max_n", "max_ee", "max_aer", "discard_casava"]
FINALS = [None, "discard_trimmed", "discard_untrimmed", "untrimmed_output"]
ROW_KEYWORDS = {"too_short": "too short", "too_long": "too long", "too_many_n": "too many N", "too_many_expected_errors": "exp. errors",
                "too_high_average_error_rate": "error rate", "casava_filtered": "CASAVA", "discard_trimmed": "as trimmed",
                "discard_untrimmed": "as untrimmed"}


def scenarios(tier):
    S = []
    for layout in ("single", "paired"):
        for demux in (None, "name", "combinatorial"):
            if demux == "combinatorial" and layout == "single":
                continue
            for mask in range(1 << len(FILTER_KEYS)):
                keys = [k for i, k in enumerate(FILTER_KEYS) if mask >> i & 1]
                if tier == "quick" and (layout == "paired" or demux) and not (len(keys) <= 1 or len(keys) >= 5 or mask % 5 == 2):
                    continue
                for final in FINALS:
                    if demux and final == "discard_trimmed":
                        continue
                    if demux == "combinatorial" and final == "untrimmed_output":
                        continue
                    for redirect in (False, True):
                        if redirect and not ("m" in keys or "M" in keys):
                            continue
                        for report in ("full", "minimal"):
                            if report == "minimal" and tier == "quick" and len(keys) not in (0, 3, 6):
                                continue
                            S.append(dict(layout=layout, demux=demux, keys=keys, final=final, redirect=redirect, report=report,
                                          extra=None))
    # side files (info / rest / wildcard) must not change any fate
    for layout in ("single", "paired"):
        for side in ("info_file", "rest_file", "wildcard_file"):
            for keys in ([], ["m"], FILTER_KEYS):
                for final in (None, "discard_untrimmed"):
                    S.append(dict(layout=layout, demux=None, keys=keys, final=final, redirect=bool(keys), report="full", extra=None,
                                  side=side))
    # quality / poly-A / NextSeq figures and multi-round adapters
    for layout in ("single", "paired"):
        for extra in (dict(q="10,10"), dict(nextseq=12), dict(q="12", nextseq=10), dict(poly_a=True), dict(q="10", poly_a=True, times=2),
                      dict(Q="15,5", q="5"), dict(action="none"), dict(action="mask", times=2), dict(cut=[0]), dict(cut=[0, -1]),
                      dict(cut=[1], cut2=[0]), dict(cut=[3, -2], q="10")):
            if ("Q" in extra or "cut2" in extra) and layout == "single":
                continue
            S.append(dict(layout=layout, demux=None, keys=["m", "max_n"], final=None, redirect=True, report="full", extra=extra))
    # every pair of entries of the option universe of vf.pairwise
    for k in range(pairwise.count()):
        p = pairwise.get(k)
        S.append(dict(pw=k, label=p["label"], layout=p["layout"], demux=p["outs"].get("demux"), keys=[], final=None, redirect=False,
                      report="full", extra=None))
    # the same path given for two outputs: refused, or at least no read lost
    for layout in ("single", "paired"):
        for which in ("ts+tl", "ts+untrimmed", "ts+ts-paired"):
            if which == "ts+ts-paired" and layout == "single":
                continue
            S.append(dict(kind="dup-paths", which=which, layout=layout, demux=None, keys=["m", "M"], final=None, redirect=True, report="full",
                          extra=None))
    # the same figures with two cores (statistics merged across workers), default schedule of the virtual scheduler
    for layout in ("single", "paired"):
        for extra in (dict(poly_a=True), dict(q="10,10", nextseq=12), dict(times=2), None):
            for demux in (None, "name"):
                S.append(dict(layout=layout, demux=demux, keys=FILTER_KEYS, final="discard_untrimmed", redirect=True, report="full",
                              extra=extra, cores=2))
    # two cores with few filters, so that most reads are WRITTEN by both workers (written-length statistics are merged, too)
    for layout in ("single", "paired"):
        for keys, extra in (([], None), (["m"], dict(q="10,10")), (["m", "max_n"], dict(poly_a=True, times=2))):
            S.append(dict(layout=layout, demux=None, keys=keys, final=None, redirect=bool(keys), report="full", extra=extra, cores=2))
    return S


def opts_of(sc):
    if "pw" in sc:
        p = pairwise.get(sc["pw"])
        return dict(p["opts"]), dict(p["outs"])
    o = dict(e=0.1, O=5)
    for k in sc["keys"]:
        o[k] = THR[k]
    o["adapters"] = [("-a", f"ad={routing.AD1}"), ("-a", "ad1b=TTTTTTCCCCCC")]
    if sc["layout"] != "single":
        o["adapters2"] = [("-A", f"bd={routing.AD2}")]
    if sc["final"] in ("discard_trimmed", "discard_untrimmed"):
        o[sc["final"]] = True
    if sc["extra"]:
        o.update(sc["extra"])
    outs = dict(demux=sc["demux"], too_short_output=sc["redirect"] and "m" in sc["keys"],
                too_long_output=sc["redirect"] and "M" in sc["keys"], untrimmed_output=sc["final"] == "untrimmed_output")
    if sc.get("side"):
        outs[sc["side"]] = True
    return o, outs


def shards(tier):
    n = 32
    total = len(scenarios(tier))
    return [dict(tier=tier, idx=list(range(i, total, n))) for i in range(n)]


_C = {}


def _corpora():
    if "c" not in _C:
        r1 = routing.corpus()
        # give some reads low-quality / poly-A tails so that the trimmed-bases figures are non-zero
        r1 = [(n, s + ("AAAAAAA" if i % 9 == 4 else ""), q + ("#######" if i % 9 == 4 else "")) for i, (n, s, q) in enumerate(r1)]
        r1 = [(n, s, ("#" + q[1:]) if i % 7 == 3 and q else q) for i, (n, s, q) in enumerate(r1)]
        _C["c"] = (r1, routing.mate_corpus(r1))
    return _C["c"]


def run_shard(d):
    S = scenarios(d["tier"])
    r1, r2 = _corpora()
    wd = clih.fresh_dir("c04")
    res = dict(evals=0, runs=0, nontrivial=0, viol=common.Viols(cap=3), samples=[])
    fwd = (r1, r2)
    for i in d["idx"]:
        sc = dict(S[i], reversed_corpus=(i % 2 == 1))
        if sc.get("kind") == "dup-paths":
            _dup_paths(sc, fwd, wd, res)
            continue
        # every other scenario reads the corpus back to front (the reference judges each read on its own)
        r1, r2 = (fwd[0][::-1], fwd[1][::-1]) if sc["reversed_corpus"] else fwd
        o, outs = opts_of(sc)
        paired = sc["layout"] != "single"
        out = routing.run_scenario(o, outs, sc["layout"], r1, r2 if paired else None, wd, report=sc["report"], want_json=True,
                                   cores=sc.get("cores", 1))
        res["runs"] += 1
        res["evals"] += len(r1)
        V = []
        if out["violations"] and out["violations"][0][0] == "cli":
            V.append(("cli", out["violations"][0][1], {}))
        else:
            # duplicates / losses are C04's business too
            for kind, what, detail in out["violations"]:
                if kind in ("dest", "files", "demux"):
                    V.append((kind, what, detail))
            V += account(sc, o, outs, out, r1, r2 if paired else None)
            res["nontrivial"] += sum(v for k, v in out["stats"]["expected_counts"].items() if k != "written")
        for kind, what, detail in V:
            res["viol"].append((f"{'pe' if paired else 'se'}:{sc['demux'] or 'plain'}:{kind}", what,
                                dict(scenario=sc, argv=[a for a in out["stats"]["argv"] if not a.startswith("/")], **detail)))
        if not res["samples"] and sc["demux"] == "name":
            res["samples"].append(dict(scenario=sc, expected_counts=out["stats"]["expected_counts"]))
    clih.rmtree(wd)
    return res


def _dup_paths(sc, corp, wd, res):
    """One path for two different outputs (it does not exist yet): cutadapt either refuses to run, or every input read must still be
    found exactly once in the files it wrote."""
    r1, r2 = corp
    paired = sc["layout"] != "single"
    d = os.path.join(wd, "dup")
    os.makedirs(d, exist_ok=True)
    for n in os.listdir(d):
        os.unlink(os.path.join(d, n))
    i1, i2 = os.path.join(d, "in.1.fq"), os.path.join(d, "in.2.fq")
    clih.write_text(i1, clih.fastq_text(r1))
    argv = ["-a", f"ad={routing.AD1}", "-m", "5", "-M", "10", "-o", os.path.join(d, "out.1.fq")]
    x = os.path.join(d, "x.fq")
    if paired:
        clih.write_text(i2, clih.fastq_text(r2))
        argv += ["-A", f"bd={routing.AD2}", "-p", os.path.join(d, "out.2.fq")]
    if sc["which"] == "ts+tl":
        argv += ["--too-short-output", x, "--too-long-output", x]
        if paired:
            argv += ["--too-short-paired-output", os.path.join(d, "y.fq"), "--too-long-paired-output", os.path.join(d, "z.fq")]
    elif sc["which"] == "ts+untrimmed":
        argv += ["--too-short-output", x, "--untrimmed-output", x]
        if paired:
            argv += ["--too-short-paired-output", os.path.join(d, "y.fq"), "--untrimmed-paired-output", os.path.join(d, "z.fq")]
    else:
        argv += ["--too-short-output", x, "--too-short-paired-output", x]
    r = clih.run_cli(argv + [i1] + ([i2] if paired else []))
    res["runs"] += 1
    res["evals"] += len(r1)
    res["nontrivial"] += len(r1)
    shown = [a if not a.startswith("/") else os.path.basename(a) for a in argv]
    if r.exit != 0:
        if not r.errors() and r.exc is None:
            res["viol"].append((f"{'pe' if paired else 'se'}:dup-paths", f"exit status {r.exit} without an error message", dict(argv=shown)))
        return
    # it ran: where are the reads?
    seen = {}
    for n in sorted(os.listdir(d)):
        if n.startswith("in."):
            continue
        try:
            recs = clih.read_records(os.path.join(d, n))[1]
        except Exception as e:  # noqa
            res["viol"].append((f"{'pe' if paired else 'se'}:dup-paths", f"one path for two outputs was accepted and {n} is unreadable "
                                f"afterwards ({type(e).__name__})", dict(argv=shown)))
            return
        if n in ("out.2.fq", "y.fq", "z.fq"):
            continue
        for rec in recs:
            seen[rec[0].split()[0]] = seen.get(rec[0].split()[0], 0) + 1
    j_lost = [x_[0].split()[0] for x_ in r1 if seen.get(x_[0].split()[0], 0) == 0]
    # reads that the filters discard without a redirect file are allowed to be absent: only -m/-M apply here, both redirected
    if j_lost or any(v > (2 if sc["which"] == "ts+ts-paired" else 1) for v in seen.values()):
        res["viol"].append((f"{'pe' if paired else 'se'}:dup-paths", f"one path was accepted for two outputs and {len(j_lost)} of {len(r1)} input "
                            "reads are in no output file afterwards (the report still adds up)", dict(argv=shown, example_lost=j_lost[:3])))


def _num(s):
    return int(s.replace(",", ""))


def account(sc, o, outs, out, r1, r2):
    V = []
    paired = r2 is not None
    st = out["stats"]
    exp = st["expected_counts"]
    n = len(r1)
    router = out["router"]
    # what the files really contain
    written_files = 0
    written_bp = [0, 0]
    for cat, g in out["got"].items():
        if g is None:
            continue
        if cat[0] == "out" or (cat[0] == "untrimmed" and sc["demux"] == "name"):
            written_files += len(g[0])
            written_bp[0] += sum(len(x[1]) for x in g[0])
            if g[1] is not None:
                written_bp[1] += sum(len(x[1]) for x in g[1])
    # sums over the reads
    in_bp = [sum(len(x[1]) for x in r1), sum(len(x[1]) for x in r2) if paired else 0]
    qtrim = [0, 0]
    polya = [0, 0]
    with_ad = [0, 0]
    for i, rec in enumerate(r1):
        a, b = router.process(rec, r2[i] if paired else None)
        qtrim[0] += a.qtrim
        polya[0] += a.polya
        with_ad[0] += 1 if a.matches else 0
        if b is not None:
            qtrim[1] += b.qtrim
            polya[1] += b.polya
            with_ad[1] += 1 if b.matches else 0
    requested = {}
    for k, cat in (("m", "too_short"), ("M", "too_long"), ("max_n", "too_many_n"), ("max_ee", "too_many_expected_errors"),
                   ("max_aer", "too_high_average_error_rate"), ("discard_casava", "casava_filtered")):
        if k in o:
            requested[cat] = exp.get(cat, 0)
    if o.get("discard_trimmed"):
        requested["discard_trimmed"] = exp.get("discard_trimmed", 0)
    if o.get("discard_untrimmed") or (outs.get("untrimmed_output") and not sc["demux"]):
        requested["discard_untrimmed"] = exp.get("discard_untrimmed", 0)
    j = out["json"]
    if j is None:
        V.append(("json", "no JSON report was written", {}))
        return V
    rc = j["read_counts"]
    bp = j["basepair_counts"]
    if rc["input"] != n:
        V.append(("json-input", f"JSON input={rc['input']} but {n} reads were given", {}))
    if rc["output"] != written_files:
        V.append(("json-output", f"JSON output={rc['output']} but the main output files hold {written_files} records", {}))
    filt = rc["filtered"]
    for cat, cnt in requested.items():
        if filt.get(cat) != cnt:
            V.append(("json-filtered", f"JSON filtered[{cat}]={filt.get(cat)} but {cnt} reads meet that fate", {}))
    total_f = sum(v for v in filt.values() if v is not None)
    if rc["input"] != rc["output"] + total_f:
        V.append(("json-sum", f"JSON: input {rc['input']} != output {rc['output']} + filtered {total_f} ({filt})", {}))
    if exp.get("written", 0) != written_files:
        V.append(("written", f"{exp.get('written', 0)} reads must be written to the main outputs but the files hold {written_files}", {}))
    checks = [("input", sum(in_bp)), ("input_read1", in_bp[0]), ("output", sum(written_bp)), ("output_read1", written_bp[0])]
    if paired:
        checks += [("input_read2", in_bp[1]), ("output_read2", written_bp[1])]
    if "q" in o or "nextseq" in o or "Q" in o:
        checks += [("quality_trimmed", sum(qtrim)), ("quality_trimmed_read1", qtrim[0])]
        if paired:
            checks.append(("quality_trimmed_read2", qtrim[1]))
    if o.get("poly_a"):
        checks += [("poly_a_trimmed", sum(polya)), ("poly_a_trimmed_read1", polya[0])]
        if paired:
            checks.append(("poly_a_trimmed_read2", polya[1]))
    # a figure for something that was not requested for that read (-Q without -q: nothing trims R1) is reported as null
    for k, v in checks:
        if bp.get(k) != v and not (bp.get(k) is None and v == 0):
            V.append(("json-bp", f"JSON basepair_counts[{k}]={bp.get(k)} but the sum over the reads / files is {v}", {}))
    wa = [rc.get("read1_with_adapter"), rc.get("read2_with_adapter")]
    if not o.get("adapters") and wa[0] is None:
        wa[0] = 0  # no adapter given for R1: reported as null
    if paired and not o.get("adapters2") and wa[1] is None:
        wa[1] = 0
    if wa[0] != with_ad[0] or (paired and wa[1] != with_ad[1]):
        V.append(("json-with-adapter", f"JSON with-adapter counts {rc.get('read1_with_adapter')}/{rc.get('read2_with_adapter')} "
                  f"but {with_ad[0]}/{with_ad[1]} reads have a match", {}))
    txt = out["result"].report_text()
    if sc["report"] == "minimal":
        lines = [ln for ln in txt.splitlines() if ln.strip()]
        if len(lines) >= 2:
            head, vals = lines[-2].split("\t"), lines[-1].split("\t")
            row = dict(zip(head, vals))
            want = dict(in_reads=n, out_reads=written_files, too_short=requested.get("too_short", 0), too_long=requested.get("too_long", 0),
                        too_many_n=requested.get("too_many_n", 0), in_bp=sum(in_bp), out_bp=written_bp[0])
            want["w/adapters"] = with_ad[0]
            if paired:
                want["w/adapters2"] = with_ad[1]
                want["out2_bp"] = written_bp[1]
            for k, v in want.items():
                if k in row and _num(row[k]) != v:
                    V.append(("minimal", f"minimal report {k}={row[k]} but the sum over the reads / files is {v}", {}))
        else:
            V.append(("minimal", "minimal report not found", {}))
    else:
        tot = re.search(r"^Total (?:reads|read pairs) processed:\s+([\d,]+)", txt, re.M)
        wr = re.search(r"^(?:Reads|Pairs) written \(passing filters\):\s+([\d,]+)", txt, re.M)
        if not tot or not wr:
            pass  # wording not recognised: the JSON report carries the same figures and is judged above
        else:
            rows = re.findall(r"^(?:Reads|Pairs) (.+?):\s+([\d,]+) \(", txt, re.M)
            fate = [(d, _num(c)) for d, c in rows if "written" not in d and "with adapter" not in d]
            if _num(tot.group(1)) != n or _num(wr.group(1)) != written_files:
                V.append(("text-totals", f"text report: processed {tot.group(1)}, written {wr.group(1)}; really {n} / {written_files}", {}))
            if _num(tot.group(1)) != _num(wr.group(1)) + sum(c for _, c in fate):
                V.append(("text-sum", f"text report rows do not add up: {tot.group(1)} != {wr.group(1)} + {fate}", {}))
            for cat, cnt in requested.items():
                kw = ROW_KEYWORDS[cat]
                hit = [c for d, c in fate if kw in d]
                if hit and hit[0] != cnt:
                    V.append(("text-row", f"text report row '{kw}' says {hit[0]} but {cnt} reads meet that fate", {}))
    return V


def run(tier):
    R = common.Result(PROP, tier, "exploration")
    sh = shards(tier)
    out = common.pmap(MOD, "run_shard", sh)
    tot = {}
    for r in out:
        for k, v in r.items():
            if isinstance(v, int):
                tot[k] = tot.get(k, 0) + v
        for s in r["samples"]:
            R.sample(s)
        for sig, what, case in r["viol"]:
            R.violation(sig, what, case)
    R.counters = tot
    R.coverage["scenarios"] = len(scenarios(tier))
    R.assumptions = ["the harness's own FASTQ reader parses every output file", "destination model of vf.routing (documented filter chain)"]
    return R.finish(tot.get("evals", 0), tot.get("nontrivial", 0),
                    "scenarios = filter subsets x {none,--discard-trimmed,--discard-untrimmed,--untrimmed-output} x redirect files x output "
                    "{plain,{name},{name1}/{name2}} x {single,paired} x report {full text + JSON, minimal + JSON} + 15 scenarios with "
                    "quality/NextSeq/poly-A trimming, --times 2, --action none/mask; corpus of 576 reads (pairs) covering every predicate "
                    "vector; non-trivial = reads that are filtered (must be counted in exactly one category)",
                    True)


def replay(path):
    with open(path) as f:
        v = json.load(f)
    print(json.dumps(v, indent=1)[:3000])
    if "scenario" not in v["case"]:
        import sys
        return common.replay_by_rerun(sys.modules[__name__], PROP, path)
    sc = v["case"]["scenario"]
    o, outs = opts_of(sc)
    r1, r2 = _corpora()
    if sc.get("reversed_corpus"):
        r1, r2 = r1[::-1], r2[::-1]
    paired = sc["layout"] != "single"
    wd = clih.fresh_dir("c04r")
    out = routing.run_scenario(o, outs, sc["layout"], r1, r2 if paired else None, wd, report=sc["report"], want_json=True,
                               cores=sc.get("cores", 1))
    V = [x for x in out["violations"] if x[0] in ("cli", "dest", "files", "demux")]
    if not V:
        V = account(sc, o, outs, out, r1, r2 if paired else None)
    print("violations on replay:", [x[:2] for x in V[:4]])
    return 1 if V else 0
