"""C05 - paired-end outputs stay synchronised and pairs are filtered as a unit.

Enumeration over (input layout x output layout x --pair-filter x filters singly and in pairs x length
specifications x adapters on R1/R2/both x redirect files x demultiplexing x --pair-adapters) through
cutadapt.cli.main on a corpus of pairs whose mates disagree on most predicates."""
import itertools
import json

from .. import bigdata, clih, common, pairwise, routing

PROP = "C05"
MOD = "vf.checks.c05"

THR = dict(m="5", M="10", max_n=2, max_ee=0.75, max_aer=0.09, discard_casava=True)
FKEYS = ["m", "M", "max_n", "max_ee", "max_aer", "discard_casava"]
LENSPECS = [dict(m="5"), dict(m="5:11"), dict(m="5:"), dict(m=":11"), dict(M="10:4"), dict(M=":4"), dict(M="10:")]
FINALS = [None, "discard_trimmed", "discard_untrimmed", "untrimmed_output"]


def scenarios(tier):
    S = []
    combos = [[k] for k in FKEYS] + [list(c) for c in itertools.combinations(FKEYS, 2)] + [[], FKEYS]
    for inl, outl in (("paired", False), ("paired", True), ("interleaved", False), ("interleaved", True)):
        for pf in (None, "any", "both", "first"):
            for keys in combos:
                if tier == "quick" and (inl, outl) != ("paired", False) and len(keys) == 2:
                    continue
                for final in FINALS:
                    for sides in ("both", "r1", "r2"):
                        if tier == "quick" and sides != "both" and final in (None, "discard_trimmed") and len(keys) == 2:
                            continue
                        S.append(dict(inl=inl, outl=outl, pf=pf, keys=keys, final=final, sides=sides, redirect=True, demux=None,
                                      spec=None, pa=False))
    for spec in LENSPECS:
        for pf in (None, "any", "both", "first"):
            for redirect in (False, True):
                S.append(dict(inl="paired", outl=False, pf=pf, keys=list(spec), final=None, sides="both", redirect=redirect, demux=None,
                              spec=spec, pa=False))
    # a minimum- and a maximum-length specification together (one- and two-sided in every combination)
    for ms in LENSPECS[:4]:
        for Ms in LENSPECS[4:]:
            for pf in (None, "any", "both", "first"):
                S.append(dict(inl="paired", outl=False, pf=pf, keys=["m", "M"], final=None, sides="both", redirect=True, demux=None,
                              spec=dict(ms, **Ms), pa=False))
    # files that describe R1 only (info/rest/wildcard file) must not change what happens to the pair
    for side in ("info_file", "rest_file", "wildcard_file"):
        for keys in ([], ["m"]):
            for pf in (None, "both"):
                S.append(dict(inl="paired", outl=False, pf=pf, keys=keys, final=None, sides="both", redirect=bool(keys), demux=None,
                              spec=None, pa=False, side=side))
    for demux in ("name", "combinatorial"):
        for keys in ([], ["m"], ["m", "max_n"], FKEYS):
            for final in (None, "discard_untrimmed", "untrimmed_output"):
                if demux == "combinatorial" and final == "untrimmed_output":
                    continue
                for pf in (None, "both"):
                    S.append(dict(inl="paired", outl=False, pf=pf, keys=keys, final=final, sides="both", redirect=bool(keys), demux=demux,
                                  spec=None, pa=False))
    for action in ("trim", "mask", "lowercase", "retain", "crop", "none"):
        for nad in (1, 2, 3):
            for final in (None, "discard_untrimmed", "untrimmed_output"):
                S.append(dict(inl="paired", outl=False, pf=None, keys=["m"], final=final, sides="both", redirect=True, demux=None,
                              spec=None, pa=True, action=action, nad=nad))
            S.append(dict(inl="paired", outl=False, pf=None, keys=[], final=None, sides="both", redirect=False, demux="name",
                          spec=None, pa=True, action=action, nad=nad))
    # every pair of entries of the option universe of vf.pairwise, paired-end
    for k in range(pairwise.count()):
        p = pairwise.get(k)
        if p["layout"] == "paired":
            S.append(dict(pw=k, label=p["label"], inl="paired", outl=bool(p["outs"].get("interleaved_out")), pf=p["opts"].get("pair_filter"),
                          keys=[], final=None, sides="both", redirect=False, demux=p["outs"].get("demux"), spec=None, pa=False))
    # several cores: every schedule with <= 1 deviation must keep the paired files of the one-core run (deeper: C06)
    for outl, demux in ((False, None), (True, None), (False, "name")):
        S.append(dict(inl="paired", outl=outl, pf=None, keys=["m"], final="untrimmed_output", sides="both", redirect=True, demux=demux,
                      spec=None, pa=False, mc=True))
    return S


def opts_of(sc):
    if "pw" in sc:
        p = pairwise.get(sc["pw"])
        return dict(p["opts"]), dict(p["outs"])
    o = dict(e=0.1, O=5)
    for k in sc["keys"]:
        o[k] = THR[k]
    if sc["spec"]:
        o.update(sc["spec"])
    if sc["sides"] in ("both", "r1"):
        o["adapters"] = [("-a", f"ad={routing.AD1}")]
    if sc["sides"] in ("both", "r2"):
        o["adapters2"] = [("-A", f"bd={routing.AD2}")]
    if sc["pa"]:
        o["pair_adapters"] = True
        o["action"] = sc["action"]
        if sc["nad"] == 3:
            # two ranks share the R1 adapter sequence (dual indexing with a common R1 barcode), with different parameters
            o["adapters"] = [("-a", f"s1={routing.AD1};e=0"), ("-a", f"s2={routing.AD1}"), ("-a", "s3=TTGCAACT")]
            o["adapters2"] = [("-A", "t1=GGGGGGGGGG"), ("-A", f"t2={routing.AD2}"), ("-A", f"t3={routing.AD2}")]
        if sc["nad"] == 2:
            # a second adapter pair whose R1 member also occurs in the corpus but whose R2 member does not, and vice versa
            o["adapters"] = [("-a", "p1=TTGCAACT"), ("-a", f"ad={routing.AD1}")]
            o["adapters2"] = [("-A", "q1=GGGGGGGGGG"), ("-A", f"bd={routing.AD2}")]
    if sc["final"] in ("discard_trimmed", "discard_untrimmed"):
        o[sc["final"]] = True
    if sc["pf"]:
        o["pair_filter"] = sc["pf"]
    if sc["demux"]:
        o.pop("discard_trimmed", None)
    outs = dict(demux=sc["demux"], too_short_output=sc["redirect"] and "m" in o, too_long_output=sc["redirect"] and "M" in o,
                untrimmed_output=sc["final"] == "untrimmed_output", interleaved_out=sc["outl"])
    if sc.get("side"):
        outs[sc["side"]] = True
    return o, outs


def shards(tier):
    n = 32
    total = len(scenarios(tier))
    return [dict(tier=tier, idx=list(range(i, total, n))) for i in range(n)]


_C = {}


def _corpora():
    if "c" not in _C:
        r1 = routing.corpus()
        _C["c"] = (r1, routing.mate_corpus(r1))
    return _C["c"]


def run_shard(d):
    S = scenarios(d["tier"])
    r1, r2 = _corpora()
    wd = clih.fresh_dir("c05")
    res = dict(evals=0, runs=0, nontrivial=0, viol=common.Viols(cap=3), samples=[])
    fwd = (r1, r2)
    for i in d["idx"]:
        sc = dict(S[i], reversed_corpus=(i % 2 == 1))
        # every other scenario reads the corpus back to front (the reference judges each pair on its own)
        r1, r2 = (fwd[0][::-1], fwd[1][::-1]) if sc["reversed_corpus"] else fwd
        o, outs = opts_of(sc)
        if sc.get("mc"):
            _multicore(sc, o, outs, fwd[0][:40:5], fwd[1][:40:5], wd, res)
            continue
        out = routing.run_scenario(o, outs, sc["inl"], r1, r2, wd, want_json=False)
        res["runs"] += 1
        res["evals"] += len(r1)
        res["nontrivial"] += out["stats"]["disagreeing_pairs"]
        for kind, what, detail in out["violations"]:
            if kind == "content" and not sc["pa"]:
                continue  # what a single read looks like after trimming is judged by C03/C09/C10; --pair-adapters is C05's own rule
            res["viol"].append((f"{sc['demux'] or ('pair-adapters' if sc['pa'] else 'plain')}:{kind}", what,
                                dict(scenario=sc, argv=[a for a in out["stats"]["argv"] if not a.startswith("/")], **detail)))
        if not res["samples"] and sc["pf"] == "both" and len(sc["keys"]) == 2:
            res["samples"].append(dict(scenario=sc, destinations=out["stats"]["categories"], example_pair=[list(r1[17]), list(r2[17])]))
    clih.rmtree(wd)
    return res


def _multicore(sc, o, outs, r1, r2, wd, res):
    import os

    from .. import mcharness

    ind = os.path.join(wd, "mc-in")
    os.makedirs(ind, exist_ok=True)
    p1, p2 = os.path.join(ind, "in.1.fq"), os.path.join(ind, "in.2.fq")
    clih.write_text(p1, clih.fastq_text(r1))
    clih.write_text(p2, clih.fastq_text(r2))

    def argv(dd, cores):
        return ["--buffer-size", "260"] + routing.build_argv(o, outs, "paired", dd, [p1, p2], cores=cores)

    n, fails = mcharness.explore_vs_serial(argv, wd, bound=1, workers=2)
    res["runs"] += n
    res["evals"] += n * len(r1)
    res["mc_executions"] = res.get("mc_executions", 0) + n
    for sched, fail in fails:
        res["viol"].append(("multicore:sync", "with 2 cores: " + fail, dict(scenario=sc, schedule=list(sched))))


def run_big(layout):
    """Synchronisation at realistic size: 36 000 pairs (150 / 100 nt) through real processes with three cores and the DEFAULT buffer
    size, records growing on output (-y): every output pair of files must hold the same ids at the same rank, and every input pair
    must be present exactly once, in input order."""
    import os
    import subprocess

    wd = clih.fresh_dir("c05big-" + layout)
    i1, i2 = os.path.join(wd, "r1.fq"), os.path.join(wd, "r2.fq")
    bigdata.paired(i1, i2)
    o1, o2 = os.path.join(wd, "o1.fq"), os.path.join(wd, "o2.fq")
    argv = ["-j", "3", "-a", f"a1={bigdata.TRUSEQ1}", "-A", f"a2={bigdata.TRUSEQ2}", "-y", " sample=LIB0423_S7 adapter={name}"]
    argv += (["--interleaved", "-o", o1] if layout == "interleaved" else ["-o", o1, "-p", o2]) + [i1, i2]
    fail = None
    try:
        r = common.run_group([common.PY, "-m", "cutadapt"] + argv, timeout=600)
        if r.returncode != 0:
            fail = f"run failed: {r.returncode} {r.stderr.decode(errors='replace')[-200:]}"
    except subprocess.TimeoutExpired:
        fail = "did not terminate within 600 s"
    if fail is None:
        ids_in = [ln.split()[0][1:] for k, ln in enumerate(open(i1)) if k % 4 == 0]
        a = [ln.split()[0][1:] for k, ln in enumerate(open(o1)) if k % 4 == 0]
        if layout == "interleaved":
            a, b = a[0::2], a[1::2]
        else:
            b = [ln.split()[0][1:] for k, ln in enumerate(open(o2)) if k % 4 == 0]
        if len(a) != len(b):
            fail = f"R1 output holds {len(a)} records, R2 output {len(b)}"
        elif a != b:
            k = next(i for i in range(len(a)) if a[i] != b[i])
            fail = f"record {k} of the R1 and R2 output come from different pairs ({a[k]} / {b[k]})"
        elif a != ids_in:
            fail = f"{len(ids_in)} pairs went in, {len(a)} came out" + ("" if len(a) != len(ids_in) else " in another order")
    clih.rmtree(wd)
    return dict(layout=layout, failure=fail, pairs=36000)


def run(tier):
    R = common.Result(PROP, tier, "exploration")
    sh = shards(tier)
    out = common.pmap(MOD, "run_shard", sh)
    big = common.pmap(MOD, "run_big", ["two-files", "interleaved"])
    for r in big:
        if r["failure"]:
            R.violation(f"realistic-size:{r['layout']}", "36 000 pairs, three cores, default buffer size: " + r["failure"], dict(big=r["layout"]))
    R.coverage["realistic_size_runs"] = [dict(layout=r["layout"], pairs=r["pairs"]) for r in big]
    tot = {}
    for r in out:
        for k, v in r.items():
            if isinstance(v, int):
                tot[k] = tot.get(k, 0) + v
        for s in r["samples"]:
            R.sample(s)
        for sig, what, case in r["viol"]:
            R.violation(sig, what, case)
    R.counters = tot
    R.coverage["scenarios"] = len(scenarios(tier))
    R.assumptions = ["per-read criteria as in C11; the pair decision is the documented combination (any/both/first, forced 'both' for the "
                     "untrimmed filters with one-sided adapters, one-sided length bounds)"]
    return R.finish(tot.get("evals", 0), tot.get("nontrivial", 0),
                    "scenarios = {two files, interleaved} in x {two files, interleaved} out x --pair-filter {unset,any,both,first} x each "
                    "filter alone / every pair of filters / none / all x {none,--discard-trimmed,--discard-untrimmed,--untrimmed-output} x "
                    "adapters on {both,R1,R2} + 7 length specifications + {name} and {name1}/{name2} demultiplexing + --pair-adapters with "
                    "1-2 adapter pairs x every action; corpus: 600 pairs; every output file pair is parsed: equal record counts, same ids at "
                    "the same rank, R2 record = processed mate, destination = documented pair decision; non-trivial = the mates disagree",
                    True)


def replay(path):
    with open(path) as f:
        v = json.load(f)
    print(json.dumps(v, indent=1)[:3000])
    if "big" in v["case"]:
        r = run_big(v["case"]["big"])
        print("replayed:", r["failure"] or "fine")
        return 1 if r["failure"] else 0
    sc = v["case"]["scenario"]
    o, outs = opts_of(sc)
    r1, r2 = _corpora()
    if sc.get("reversed_corpus"):
        r1, r2 = r1[::-1], r2[::-1]
    wd = clih.fresh_dir("c05r")
    out = routing.run_scenario(o, outs, sc["inl"], r1, r2, wd, want_json=False)
    print("violations on replay:", [x[:2] for x in out["violations"][:4]])
    return 1 if out["violations"] else 0
