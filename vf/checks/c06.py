"""C06 - multi-core runs give the single-core result under every schedule (model checking).

The real cutadapt.runners code (ReaderProcess.run, WorkerProcess.run, ParallelPipelineRunner) runs on
the virtual multiprocessing layer (vf.vmp); the explorer (vf.explore) enumerates the schedules of the
pipe/queue operations; every complete execution is compared with the one-core run of the same options."""
import io
import json
import os
import subprocess
import sys

from .. import bigdata, clih, common, explore, mcharness, vmp

PROP = "C06"
MOD = "vf.checks.c06"

A1, A2 = "AAAAGGGG", "CCCCTTTT"


def _q(n, k):
    return "".join("I#5I?"[(i + k) % 5] if (i * 7 + k) % 4 == 0 else "I" for i in range(n))


def reads_single():
    seqs = [
        ("r0 1:N:0", "ACGTACGTAC" + A1 + "TT"),
        ("r1", "ACGTAC"),
        ("r2", "GGTTGGTTGGTTGGTT" + A2),
        ("r3", "TGCATGCATGCATGCATGCATGCATGCATGCA"),
        ("r4", "NNACGTNACGT" + A1),
        ("r5 1:Y:0", "TTGGCCAATTGGCCAA"),
        ("r6", A1 + "ACGT"),
        ("r7", "ACACACACAC" + A2[:5]),
        ("r8", "GCACCGGAAGTGAGTA"),  # passes the k-mer prefilter of AGATCGGAAGAGC, only a 1-base overlap at the end
    ]
    return [(n, s, _q(len(s), i)) for i, (n, s) in enumerate(seqs)]


def reads_r2():
    seqs = ["TTTTACGT" + A2 + "G", "GGGGGGGGGGGG", "ACGT", "CATGCATGCATG" + A1, "ACGTACGTACGTACGTACGTAC", "NNNN" + A2,
            "GATTACAGATTACA", "CC", "GCACCGGAAGTGAGTA"]
    r1 = reads_single()
    return [(r1[i][0].replace(" 1:", " 2:"), s, _q(len(s), i + 2)) for i, s in enumerate(seqs)]


# name, argv (with {d} for the output directory, inputs appended), layout, nreads
def configs():
    C = []

    def add(name, argv, layout="single", fmt="fastq", nreads=9, reads="std", thorough_only=False):
        C.append(dict(name=name, argv=argv, layout=layout, fmt=fmt, nreads=nreads, reads=reads, thorough_only=thorough_only))

    add("single", ["-a", f"a1={A1}", "-o", "{d}/out.fq"])
    add("single-redirects", ["-a", f"a1={A1}", "-a", f"a2={A2}", "-m", "8", "-M", "30", "--too-short-output", "{d}/ts.fq",
                             "--too-long-output", "{d}/tl.fq", "--untrimmed-output", "{d}/un.fq", "-o", "{d}/out.fq"])
    add("paired", ["-a", f"a1={A1}", "-A", f"b2={A2}", "-o", "{d}/o1.fq", "-p", "{d}/o2.fq"], layout="paired")
    add("info-rest-wildcard", ["-a", "a1=AANAGGGG", "--info-file", "{d}/info.tsv", "--rest-file", "{d}/rest.txt",
                               "--wildcard-file", "{d}/wc.txt", "-o", "{d}/out.fq"])
    add("demux", ["-a", f"a1={A1}", "-a", f"a2={A2}", "-o", "{d}/d-{{name}}.fq"])
    add("interleaved", ["--interleaved", "-a", f"a1={A1}", "-A", f"b2={A2}", "-q", "10", "-o", "{d}/out.fq"], layout="interleaved")
    add("paired-redirects", ["-a", f"a1={A1}", "-A", f"b2={A2}", "-m", "8:6", "--too-short-output", "{d}/ts1.fq",
                             "--too-short-paired-output", "{d}/ts2.fq", "--untrimmed-output", "{d}/un1.fq",
                             "--untrimmed-paired-output", "{d}/un2.fq", "-o", "{d}/o1.fq", "-p", "{d}/o2.fq"], layout="paired")
    add("paired-demux", ["-a", f"a1={A1}", "-A", f"b2={A2}", "-o", "{d}/d-{{name1}}-{{name2}}.1.fq",
                         "-p", "{d}/d-{{name1}}-{{name2}}.2.fq"], layout="paired")
    add("revcomp", ["--revcomp", "-a", "a1=CCCCTTTT", "-o", "{d}/out.fq", "--info-file", "{d}/info.tsv"])
    add("gz-output", ["-a", f"a1={A1}", "-o", "{d}/out.fastq.gz"])
    add("fasta-output", ["-a", f"a1={A1}", "-o", "{d}/out.fasta"])
    add("overlap5", ["-a", "big=AGATCGGAAGAGC", "-O", "5", "-e", "0.1", "-o", "{d}/out.fq"])
    add("linked", ["-a", "lk=ACGT...GGGG", "-a", f"a2={A2}", "--times", "2", "-o", "{d}/out.fq"])
    add("quality-polya", ["-q", "10,15", "--poly-a", "--trim-n", "--max-n", "2", "--max-ee", "1.5", "--discard-casava",
                          "-a", f"a1={A1}", "-o", "{d}/out.fq"])
    add("interleaved-fasta", ["--interleaved", "-a", f"a1={A1}", "-A", f"b2={A2}", "-o", "{d}/out.fa"], layout="interleaved", fmt="fasta")
    add("linked-revcomp", ["--revcomp", "-a", "lk=ACGT...GGGG", "-a", f"a2={A2}", "-o", "{d}/out.fq"], layout="single", reads="rc")
    # further option sets, explored in the thorough tier only
    add("t-nextseq-rename", ["--nextseq-trim", "10", "-q", "12", "-u", "1", "-a", f"a1={A1}", "--rename", "{{id}} {{adapter_name}} {{cut_prefix}}",
                             "--length-tag", "length=", "-o", "{d}/out.fq"], thorough_only=True)
    add("t-paired-U-Q-L", ["-U", "2", "-Q", "8", "-L", "12", "-u", "-1", "-a", f"a1={A1}", "-A", f"b2={A2}", "--max-aer", "0.2", "-o", "{d}/o1.fq",
                           "-p", "{d}/o2.fq"], layout="paired", thorough_only=True)
    add("t-paired-polya-toolong", ["--poly-a", "-a", f"a1={A1}", "-A", f"b2={A2}", "-M", "20:16", "--too-long-output", "{d}/tl1.fq",
                                   "--too-long-paired-output", "{d}/tl2.fq", "--rest-file", "{d}/rest.txt", "-o", "{d}/o1.fq", "-p", "{d}/o2.fq"],
        layout="paired", thorough_only=True)
    add("t-retain-xz", ["-g", "f1=ACGTAC", "--action", "retain", "-o", "{d}/out.fastq.xz"], thorough_only=True)
    add("t-fasta-paired-bz2", ["-a", f"a1={A1}", "-A", f"b2={A2}", "--trim-n", "-m", "5", "-o", "{d}/o1.fa.bz2", "-p", "{d}/o2.fa.bz2"],
        layout="paired", fmt="fasta", thorough_only=True)
    add("t-three-adapters-times3", ["-a", f"a1={A1}", "-g", "f1=ACGTAC", "-b", f"w2={A2}", "--times", "3", "--discard-trimmed",
                                    "--info-file", "{d}/info.tsv", "-o", "{d}/out.fq"], thorough_only=True)
    add("fasta-input", ["-a", f"a1={A1}", "--action", "lowercase", "-o", "{d}/out.fa"], fmt="fasta")
    add("mask-rename", ["-g", "f1=ACGTAC", "-a", f"a1={A1}", "--action", "mask", "--times", "2",
                        "--rename", "{{id}} {{adapter_name}} {{comment}}", "-o", "{d}/out.fq"])
    add("pair-adapters", ["--pair-adapters", "-a", f"a1={A1}", "-A", f"b1={A2}", "-a", "a2=GGTTGG", "-A", "b2=ACGT",
                          "--discard-untrimmed", "-o", "{d}/o1.fq", "-p", "{d}/o2.fq"], layout="paired")
    # inputs on which a read's result would change if anything learnt from earlier reads survived inside a worker: N inside the
    # region looked up in the adapter index followed by the same region without N, and reads on which two adapters tie
    add("history-index", ["-e", "0.15", "-g", "bc1=^ACGTACGT", "-g", "bc2=^TTGGCCAA", "--info-file", "{d}/info.tsv", "-o", "{d}/out.fq"],
        reads="hist-index")
    add("history-ties", ["-a", "first=ACGTACGTAA", "-a", "second=ACGTACGTCC", "--info-file", "{d}/info.tsv", "-o", "{d}/d-{{name}}.fq"],
        reads="hist-ties")
    # statistics that are merged across workers: an enabled filter that never applies (count 0, not null), no input record at all
    add("zero-hit-filters", ["-a", f"a1={A1}", "-m", "1", "-M", "90", "--max-n", "9", "--too-short-output", "{d}/ts.fq", "-o", "{d}/out.fq"],
        reads="nonempty")
    add("empty-input", ["-a", f"a1={A1}", "-m", "5", "-o", "{d}/out.fq"], nreads=0)
    add("empty-paired", ["-a", f"a1={A1}", "-A", f"b2={A2}", "-m", "5", "--report=minimal", "-o", "{d}/o1.fq", "-p", "{d}/o2.fq"], layout="paired",
        nreads=0)
    # per-adapter statistics kept for a whole run in each worker and added up afterwards: the 'other' class of adjacent bases (N before a
    # 3' match) for a regular 3', an anywhere and a linked adapter, several such reads in every chunk
    add("adjacent-stats", ["-b", f"w2={A2}", "-a", f"a1={A1}", "-a", "lk=TGCA...GGTACC", "-o", "{d}/out.fq"], reads="adjacent")
    # output format from an upper-case extension; FASTA headers that contain '>' (interleaved input, single-record chunks)
    add("fasta-upper-ext", ["-a", f"a1={A1}", "-o", "{d}/OUT.FA"])
    add("interleaved-fasta-gt", ["--interleaved", "-a", f"a1={A1}", "-A", f"b2={A2}", "-o", "{d}/out.fa"], layout="interleaved", fmt="fasta",
        reads="gt")
    return C


def reads_gt():
    """R1 headers of every other pair contain '>' (R2 headers do not)."""
    return [((n.split()[0] + " sub=A>G") if i % 2 == 0 else n, s_, q) for i, (n, s_, q) in enumerate(reads_single())]


def reads_hist_index():
    seqs = ["ACGTACGTTTGACCAGT", "NCGTACGTCATCATCAT", "ACGTACGTGGATCCAAG", "ACGTACNTTTGACCAGT", "NCGTNCATCATGGACTA", "ACGTACGTACGTACGTA",
            "TTGGCCNATTGACCATT", "TTGGCCAATTGACCATT", "ACGAACGTGGATCCAAG"]
    return [(f"h{i}", s_, _q(len(s_), i)) for i, s_ in enumerate(seqs)]


def reads_hist_ties():
    seqs = ["TTGACCAGTACGTACGT", "CATCATCATACGTACGTCC", "GGATCCAAGACGTACGT", "TTGACCAGTTACGTACG", "CATGGACTAACGTACGTAA", "TGCATGCAACGTACGT",
            "TTGACCATTGACGTACGT", "CCATGGACGTACGTC", "GGATCCAAGGACGTACG"]
    return [(f"t{i}", s_, _q(len(s_), i)) for i, s_ in enumerate(seqs)]


def reads_adjacent():
    seqs = ["GATTACANCCCCTTTTGG", "TTGACCAGNAAAAGGGG", "TGCAGATTACANGGTACC", "CCCCTTTTACGTACGT", "GGATCCNAAAAGGGGTT", "CATCATCANCCCCTTTT",
            "TGCATTGACCNGGTACCA", "CATGGACNAAAAGGGG", "TTGGCCAANCCCCTTTTAC"]  # the last chunk always holds an 'other' base for w2
    return [(f"j{i}", s_, _q(len(s_), i)) for i, s_ in enumerate(seqs)]


def reads_rc():
    """Reads matching the linked adapter ACGT...GGGG, most of them stored reverse-complemented, so that several chunks
    (and therefore several workers) see matches on the reverse complement."""
    from .. import refops

    base = ["ACGTTTGACCAGGGGTT", "ACGTCATCATCATGGGG", "ACGTAAGGGGCC", "TTGACCATTGACCA", "ACGTTGCATGCAGGGGA", "ACGTGGGG", "ACGTCCATGGGGAC",
            "ACGTATATATGGGG", "CATTACGGGGTTTT"]
    out = []
    for i, s in enumerate(base):
        s2 = s if i % 4 == 3 else refops.revcomp(s)
        out.append((f"q{i}", s2, _q(len(s2), i)))
    return out


def write_inputs(cfg, wd):
    r1 = {"rc": reads_rc, "hist-index": reads_hist_index, "hist-ties": reads_hist_ties, "gt": reads_gt,
          "adjacent": reads_adjacent}.get(
        cfg.get("reads"), reads_single)()[: cfg["nreads"]]
    r2 = reads_r2()[: cfg["nreads"]]
    if cfg.get("reads") == "nonempty":
        r1 = [x for x in reads_single() if x[1]]
    if cfg.get("reads") == "gt":
        r2 = [(n.split()[0], s_, q) for n, s_, q in r2]
    txt = clih.fastq_text if cfg["fmt"] == "fastq" else clih.fasta_text
    ext = "fq" if cfg["fmt"] == "fastq" else "fa"
    if cfg["layout"] == "single":
        p = os.path.join(wd, f"in.{ext}")
        clih.write_text(p, txt(r1))
        return [p]
    if cfg["layout"] == "paired":
        p1, p2 = os.path.join(wd, f"in1.{ext}"), os.path.join(wd, f"in2.{ext}")
        clih.write_text(p1, txt(r1))
        clih.write_text(p2, txt(r2))
        return [p1, p2]
    p = os.path.join(wd, f"in.{ext}")
    clih.write_text(p, txt([x for pair in zip(r1, r2) for x in pair]))
    return [p]


def count_chunks(paths, buffer_size, interleaved):
    import dnaio

    files = [open(p, "rb") for p in paths]
    try:
        if len(files) == 1:
            return sum(1 for _ in dnaio.read_chunks(files[0], buffer_size))
        return sum(1 for _ in dnaio.read_paired_chunks(files[0], files[1], buffer_size))
    finally:
        for f in files:
            f.close()


def buffer_for_chunks(paths, want, interleaved=False):
    """Smallest buffer size (from a menu) that splits the input into exactly `want` chunks, else closest."""
    best = None
    for bs in range(40, 1400, 4):
        try:
            n = count_chunks(paths, bs, interleaved)
        except Exception:  # noqa  buffer smaller than one record
            continue
        if n == want:
            return bs, n
        if best is None or abs(n - want) < abs(best[1] - want):
            best = (bs, n)
    return best


# ------------------------------------------------------------------------------------------------
# one exploration task = (config index, workers, chunks wanted, capacity, mode, bound, root prefix)
# ------------------------------------------------------------------------------------------------

_PREP = {}


def prepare(ci, workers, chunks):
    key = (ci, workers, chunks)
    if key in _PREP:
        return _PREP[key]
    cfg = configs()[ci]
    wd = clih.fresh_dir(f"c06-{ci}-{workers}-{chunks}")
    ind = os.path.join(wd, "in")
    refd = os.path.join(wd, "ref")
    rund = os.path.join(wd, "run")
    for d in (ind, refd, rund):
        os.makedirs(d, exist_ok=True)
    paths = write_inputs(cfg, ind)
    bs, nchunks = buffer_for_chunks(paths, chunks, cfg["layout"] == "interleaved")

    def argv(d, cores):
        a = [x.replace("{d}", d).replace("{{", "{").replace("}}", "}") for x in cfg["argv"]]
        return ["-j", str(cores), "--buffer-size", str(bs), "--json", os.path.join(d, "report.json")] + a + paths

    ref = mcharness.run_serial(argv(refd, 1), refd)
    prep = dict(cfg=cfg, wd=wd, refd=refd, rund=rund, argv=argv, ref=ref, bs=bs, nchunks=nchunks, paths=paths)
    _PREP[key] = prep
    return prep


def make_run_exec(prep, workers, capacity, stats):
    ref = prep["ref"]

    def run_exec(prefix):
        s = mcharness.run_virtual(prep["argv"](prep["rund"], workers), prep["rund"], prefix=prefix, bytes_capacity=capacity)
        if s.divergence:
            raise vmp.HarnessNondeterminism(f"replay divergence: {s.divergence} (prefix {list(prefix)})")
        failure = mcharness.diff_summaries(ref, s)
        stats["reader_orders"].add(s.reader_order)
        stats["arrival_orders"].add(s.chunk_order)
        if list(s.chunk_order) != sorted(s.chunk_order):
            stats["ooo"] = stats.get("ooo", 0) + 1
        if s.leaked:
            stats["leaked"] += s.leaked
        return s.points, s.outcome_key(), failure

    return run_exec


def phase1(task):
    """Reference run, determinism gate, default execution: returns the first-level subtree roots."""
    ci, workers, chunks, capacity, mode, bound = task
    prep = prepare(ci, workers, chunks)
    ref = prep["ref"]
    if ref.exit != 0:
        return dict(task=task, harness_error=f"one-core reference run failed: exit={ref.exit} {ref.exc} {ref.errors[:2]}")
    stats = dict(reader_orders=set(), arrival_orders=set(), leaked=0)
    run_exec = make_run_exec(prep, workers, capacity, stats)
    # determinism gate: default schedule twice, one non-default schedule twice
    p1, o1, f1 = run_exec(())
    p2, o2, f2 = run_exec(())
    if p1 != p2 or o1 != o2:
        return dict(task=task, harness_error="default schedule is not reproducible (points or outcome differ)")
    alt = None
    for i, (en, c, k) in enumerate(p1):
        if len(en) > 1 and i >= len(p1) // 3:
            alt = tuple(x[1] for x in p1[:i]) + (1,)
            break
    if alt is not None:
        q1, oo1, _ = run_exec(alt)
        q2, oo2, _ = run_exec(alt)
        if q1 != q2 or oo1 != oo2:
            return dict(task=task, harness_error="a non-default schedule is not reproducible")
    roots = []
    choices = [x[1] for x in p1]
    for i, (en, c, k) in enumerate(p1):
        for a in range(1, len(en)):
            roots.append(tuple(choices[:i]) + (a,))
    return dict(task=task, points=len(p1), roots=roots, root_failure=f1, root_outcome=o1, nchunks=prep["nchunks"], bs=prep["bs"],
                root_keys=[x[2] for x in p1], ref_files=sorted(ref.outputs), ref_json_reads=(ref.json or {}).get("read_counts"))


def phase2(job):
    """Explore one subtree (mode D) or the whole configuration (mode S)."""
    task, root = job
    ci, workers, chunks, capacity, mode, bound = task
    prep = prepare(ci, workers, chunks)
    stats = dict(reader_orders=set(), arrival_orders=set(), leaked=0)
    run_exec = make_run_exec(prep, workers, capacity, stats)
    if mode == "S":
        r = explore.explore(run_exec, "S", budget_s=bound)
    else:
        r = explore.explore(run_exec, "D", bound=bound, root=root, root_devs=1 if root else 0)
    return dict(task=task, root=root, executions=r.executions, transitions=r.transitions, states=r.states,
                outcomes={k: v[0] for k, v in r.outcomes.items()}, failures=r.failures, cap=r.cap_hit,
                exhausted=r.frontier_exhausted, reader_orders=stats["reader_orders"], arrival_orders=stats["arrival_orders"],
                leaked=stats["leaked"], max_points=r.max_points, ooo=stats.get("ooo", 0))


def plan(tier):
    allc = configs()
    ix = {c["name"]: i for i, c in enumerate(allc)}
    names = [c["name"] for c in allc if tier == "thorough" or not c["thorough_only"]]
    T = []
    if tier == "quick":
        for n in ("single", "single-redirects", "paired"):
            T.append((ix[n], 2, 3, None, "D", 2))
        for n in names:
            if n not in ("single", "single-redirects", "paired"):
                T.append((ix[n], 2, 2, None, "D", 2))
                # dnaio cuts single-file FASTQ input after an even number of records, so two chunks of the 9-record inputs are 8 + 1
                # records; three chunks are 4 + 4 + 1, which puts comparable work (and comparable statistics) on both workers
                T.append((ix[n], 2, 3, None, "D", 1))
        T.append((ix["interleaved-fasta"], 2, 40, None, "D", 1))  # buffer so small that chunks hold single records
        T.append((ix["interleaved"], 2, 40, None, "D", 1))
        T.append((ix["linked-revcomp"], 2, 4, None, "D", 1))
        T.append((ix["interleaved-fasta-gt"], 2, 40, None, "D", 1))
        T.append((ix["history-index"], 2, 4, None, "D", 1))
        T.append((ix["history-ties"], 2, 4, None, "D", 1))
        T.append((ix["adjacent-stats"], 2, 40, None, "D", 1))  # smallest chunks (two records): every adapter's "other" count is spread over the workers
        T.append((ix["single"], 2, 3, 1, "D", 1))
        T.append((ix["paired"], 2, 2, 1, "D", 1))
        T.append((ix["single-redirects"], 3, 3, None, "D", 1))
        T.append((ix["single"], 3, 3, None, "D", 2))  # reaches all 6 arrival orders of 3 chunks from 3 workers (D(1): 3 of them)
    else:
        for n in names:
            T.append((ix[n], 2, 3, None, "D", 2))
            T.append((ix[n], 2, 2, 1, "D", 2))
        T.append((ix["interleaved-fasta"], 2, 40, None, "D", 2))
        T.append((ix["interleaved"], 2, 40, None, "D", 2))
        T.append((ix["linked-revcomp"], 3, 5, None, "D", 2))
        T.append((ix["interleaved-fasta-gt"], 2, 40, None, "D", 2))
        T.append((ix["history-index"], 3, 5, None, "D", 2))
        T.append((ix["history-ties"], 3, 5, None, "D", 2))
        T.append((ix["adjacent-stats"], 2, 40, None, "D", 2))
        T.append((ix["adjacent-stats"], 3, 5, None, "D", 2))
        for n in ("single", "single-redirects", "paired", "demux"):
            T.append((ix[n], 3, 4, None, "D", 2))
            T.append((ix[n], 2, 4, None, "D", 3))
        for n in ("single", "paired", "info-rest-wildcard", "paired-demux"):
            T.append((ix[n], 2, 2, None, "S", 2400))  # whole interleaving space, time budget in seconds
    return T


def free_running(tier):
    """Conformance pass: the same command lines as real OS processes; the outcome must be the one-core outcome."""
    jobs = []
    for ci, cfg in enumerate(configs()):
        if cfg["thorough_only"] and tier != "thorough":
            continue
        jobs.append((ci, 2, 3))
        if tier == "thorough":
            jobs.append((ci, 3, 4))
    return jobs


def run_free(job):
    ci, workers, chunks = job
    prep = prepare(ci, workers, chunks)
    d = os.path.join(prep["wd"], "free")
    os.makedirs(d, exist_ok=True)
    mcharness.clear_dir(d)
    argv = prep["argv"](d, workers)
    env = dict(os.environ)
    try:
        r = common.run_group([common.PY, "-m", "cutadapt"] + argv, timeout=60, env=env)
    except subprocess.TimeoutExpired:
        return dict(job=job, failure="real multi-core process did not terminate within 60 s")
    s = mcharness.RunSummary()
    s.exit = r.returncode
    s.exc = None
    s.errors = [r.stderr.decode(errors="replace")[-300:]]
    s.outputs = mcharness.collect_outputs(d, skip=("report.json",))
    s.json = mcharness.norm_json(os.path.join(d, "report.json"))
    s.report = prep["ref"].report  # the text report of a subprocess goes to stdout together with logging; JSON is compared
    s.deadlock = None
    s.horizon = False
    s.divergence = None
    return dict(job=job, failure=mcharness.diff_summaries(prep["ref"], s))


REALISTIC = ["paired-interleaved-suffix", "paired-suffix", "ties-demux", "barcodes-384", "linked-polya-q"]


def run_realistic(name):
    """Conformance at realistic size: real processes, DEFAULT --buffer-size, 15-30 MB of input; 3 cores must give the one-core
    result (files byte for byte, JSON report)."""
    wd = clih.fresh_dir("c06big-" + name)
    ind = os.path.join(wd, "in")
    os.makedirs(ind, exist_ok=True)
    i1, i2 = os.path.join(ind, "r1.fq"), os.path.join(ind, "r2.fq")
    if name.startswith("paired"):
        bigdata.paired(i1, i2)
        inputs = [i1, i2]
        base = ["-a", f"a1={bigdata.TRUSEQ1}", "-A", f"a2={bigdata.TRUSEQ2}", "-y", " sample=LIB0423_S7 adapter={name}", "-m", "20"]
        outs = (lambda d: ["--interleaved", "-o", os.path.join(d, "out.fq")]) if "interleaved" in name else \
            (lambda d: ["-o", os.path.join(d, "o1.fq"), "-p", os.path.join(d, "o2.fq")])
    elif name == "ties-demux":
        stem = "GATCGGAAGAGCACACGTCTGAACTCCAGTCACGGCTAC"
        ads = [stem + t for t in ("ATCACGATCTCGTATGCCGTCTTC", "CGATGTATCTCGTATGCCGTCTTC", "TTAGGCATCTCGTATGCCGTCTTC", "TGACCAATCTCGTATGCCGTCTTC",
                                  "ACAGTGATCTCGTATGCCGTCTTC", "GCCAATATCTCGTATGCCGTCTTC")]
        bigdata.single_ties(i1, ads)
        inputs = [i1]
        base = [x for k, a in enumerate(ads) for x in ("-a", f"index{k + 1:02d}={a}")]
        outs = lambda d: ["--info-file", os.path.join(d, "info.tsv"), "-o", os.path.join(d, "demux-{name}.fq")]
    elif name == "barcodes-384":
        bcs = bigdata.barcodes(384)
        fa = os.path.join(ind, "bc.fa")
        clih.write_text(fa, "".join(f">bc{k:03d}\n{b}\n" for k, b in enumerate(bcs)))
        bigdata.barcoded(i1, bcs)
        inputs = [i1]
        base = ["-e", "0.1", "-g", f"^file:{fa}"]
        outs = lambda d: ["--info-file", os.path.join(d, "info.tsv"), "-o", os.path.join(d, "out.fq")]
    else:
        front, back = "ACGTTGCAAGCTTGCATGCCTGCAGGTCGA", "TTGGCCAATTGGCCAAGGATCCTCTAGAGT"
        bigdata.linked(i1, front, back)
        inputs = [i1]
        base = ["-a", f"amplicon={front}...{back}", "--poly-a", "-q", "20", "--max-n", "5", "-M", "500"]
        outs = lambda d: ["-o", os.path.join(d, "out.fq")]
    res = {}
    for cores in (1, 3):
        d = os.path.join(wd, f"j{cores}")
        os.makedirs(d, exist_ok=True)
        argv = ["-j", str(cores), "--json", os.path.join(d, "report.json")] + base + outs(d) + inputs
        try:
            r = common.run_group([common.PY, "-m", "cutadapt"] + argv, timeout=600)
        except subprocess.TimeoutExpired:
            clih.rmtree(wd)
            return dict(name=name, failure=f"realistic-size run with {cores} core(s) did not terminate within 600 s", bytes=0)
        res[cores] = (r.returncode, r.stderr.decode(errors="replace")[-300:], mcharness.collect_outputs(d, skip=("report.json",)),
                      mcharness.norm_json(os.path.join(d, "report.json")))
    size = sum(os.path.getsize(p) for p in inputs)
    fail = None
    (e1, err1, o1, j1), (e3, err3, o3, j3) = res[1], res[3]
    if e1 != 0:
        fail = f"one-core run failed: {e1} {err1}"
    elif e3 != e1:
        fail = f"exit status {e3} with 3 cores ({err3}) but {e1} with one core"
    elif sorted(o1) != sorted(o3):
        fail = f"set of output files differs: {sorted(o3)[:5]} vs {sorted(o1)[:5]}"
    else:
        for n in sorted(o1):
            if o1[n] != o3[n]:
                fail = f"output file {n} differs from the one-core run ({len(o3[n])} vs {len(o1[n])} bytes)"
                break
        if fail is None and j1 != j3:
            fail = "JSON report differs from the one-core run at " + str(mcharness._first_json_diff(j1, j3))
    clih.rmtree(wd)
    return dict(name=name, failure=fail, bytes=size)


def run(tier):
    R = common.Result(PROP, tier, "model_checking")
    tasks = plan(tier)
    p1 = common.pmap(MOD, "phase1", tasks)
    jobs = []
    cfgs = configs()
    total_exec = 0
    for r in p1:
        if "harness_error" in r:
            raise common.HarnessError(f"{cfgs[r['task'][0]]['name']}: {r['harness_error']}")
        total_exec += 3
        task = r["task"]
        if task[4] == "S":
            jobs.append((task, ()))
        else:
            jobs.append((task, None))  # the root execution itself is re-run as part of subtree () with bound 0
            for root in r["roots"]:
                jobs.append((task, root))
    # job (task, None) -> just the default execution judged
    real_jobs = []
    for task, root in jobs:
        if root is None:
            continue
        real_jobs.append((task, root))
    # big subtrees first (a deviation at an early point leaves the longest tail to explore): better load balance
    real_jobs.sort(key=lambda j: (-(j[0][5] if j[0][4] == "D" else 99), len(j[1])))
    out = common.pmap(MOD, "phase2", real_jobs, progress=400)
    states = set()
    transitions = 0
    per_task = {}
    outcomes_per_task = {}
    reader_orders = {}
    arrival_orders = {}
    caps = []
    leaked = 0
    for r in p1:
        t = r["task"]
        per_task[t] = dict(executions=1, points_default=r["points"], chunks=r["nchunks"], buffer_size=r["bs"], ooo=0)
        outcomes_per_task[t] = {r["root_outcome"]: 1}
        reader_orders[t] = set()
        arrival_orders[t] = set()
        states |= {(t[:4], k) for k in r["root_keys"]}
        if r["root_failure"]:
            _report(R, cfgs, t, (), r["root_failure"])
    for r in out:
        t = r["task"]
        per_task[t]["executions"] += r["executions"]
        per_task[t]["ooo"] += r["ooo"]
        transitions += r["transitions"]
        states |= {(t[:4], k) for k in r["states"]}
        for k, c in r["outcomes"].items():
            outcomes_per_task[t][k] = outcomes_per_task[t].get(k, 0) + c
        reader_orders[t] |= r["reader_orders"]
        arrival_orders[t] |= r["arrival_orders"]
        leaked += r["leaked"]
        if r["cap"]:
            caps.append(f"{cfgs[t[0]]['name']} {t[1:]}: {r['cap']}")
        for prefix, failure, choices in r["failures"]:
            _report(R, cfgs, t, choices, failure)
    # free-running conformance pass
    fr = common.pmap(MOD, "run_free", free_running(tier))
    for r in fr:
        if r["failure"]:
            ci, workers, chunks = r["job"]
            R.violation(f"free-running:{cfgs[ci]['name']}", "real OS processes: " + r["failure"],
                        dict(config=cfgs[ci]["name"], workers=workers, chunks=chunks, argv=cfgs[ci]["argv"]))
    # conformance at realistic size (default buffer size, 15-30 MB inputs)
    big = common.pmap(MOD, "run_realistic", REALISTIC)
    for r in big:
        if r["failure"]:
            R.violation(f"realistic-size:{r['name']}", "real OS processes, default --buffer-size: " + r["failure"], dict(scenario=r["name"]))
    R.coverage["realistic_size_runs"] = [dict(scenario=r["name"], input_bytes=r["bytes"], cores=[1, 3]) for r in big]
    executions = sum(v["executions"] for v in per_task.values())
    table = []
    for t, v in per_task.items():
        table.append(dict(config=cfgs[t[0]]["name"], workers=t[1], chunks=v["chunks"], bytes_capacity=t[3], mode=t[4],
                          bound=t[5], executions=v["executions"], choice_points_default_schedule=v["points_default"],
                          distinct_outcomes=len(outcomes_per_task[t]), distinct_chunk_assignments=len(reader_orders[t]),
                          distinct_arrival_orders=len(arrival_orders[t]),
                          executions_with_out_of_order_arrival=v["ooo"]))
    multi = [x for x in table if x["distinct_outcomes"] != 1]
    R.coverage.update(dict(states=len(states), transitions=int(transitions), traces_validated_against_impl=int(executions),
                           explanation="every explored trace IS a run of the implementation under the virtual scheduler; "
                                       "free-running real-process runs bind the virtual layer to the OS primitives",
                           per_configuration=table, caps_hit=caps, free_running_runs=len(fr), leaked_threads=leaked))
    for x in table[:3]:
        R.sample(x)
    R.sample(dict(example_schedule_prefix=list(real_jobs[len(real_jobs) // 2][1]) if real_jobs else []))
    R.assumptions = ["virtual pipe/queue semantics of DESIGN 1.1 (FIFO, no EOF on recv, terminate = no further operation)",
                     "a receive on a non-empty channel commutes with all other processes' transitions (single consumer)",
                     "process start = pickle round trip of the Process attributes (spawn semantics)",
                     "module-level state is shared between virtual processes (threads); real processes have private copies"]
    nontriv = sum(1 for x in table if x["distinct_arrival_orders"] > 1)
    exhaustive = not caps
    return R.finish(executions, max(2, sum(x["distinct_arrival_orders"] for x in table)),
                    "executions = complete runs of cutadapt -j N under distinct schedules; modes: D(d) = all schedules with <= d "
                    "non-default choices, S = all schedules with exact state matching; distinct_nontrivial = number of distinct "
                    "(configuration, result arrival order at the main process) pairs observed",
                    exhaustive, extra=dict(configurations_with_reordering=nontriv,
                               executions_with_out_of_order_arrival=sum(x["executions_with_out_of_order_arrival"] for x in table),
                               configurations_with_more_than_one_outcome=[x["config"] for x in multi]))


def _report(R, cfgs, t, choices, failure):
    cfg = cfgs[t[0]]
    R.violation(f"{cfg['name']}:{failure.split(':')[0][:40]}", failure,
                dict(config=cfg["name"], argv=cfg["argv"], workers=t[1], chunks=t[2], bytes_capacity=t[3], schedule=list(choices)))


def replay(path):
    with open(path) as f:
        v = json.load(f)
    print(json.dumps(v, indent=1)[:3000])
    c = v["case"]
    if "scenario" in c:
        r = run_realistic(c["scenario"])
        print("replayed:", r["failure"] or "identical to the one-core run")
        return 1 if r["failure"] else 0
    names = [x["name"] for x in configs()]
    ci = names.index(c["config"])
    prep = prepare(ci, c["workers"], c["chunks"])
    s = mcharness.run_virtual(prep["argv"](prep["rund"], c["workers"]), prep["rund"], prefix=tuple(c.get("schedule", ())),
                              bytes_capacity=c.get("bytes_capacity"))
    d = mcharness.diff_summaries(prep["ref"], s)
    print("replayed:", d or "identical to the one-core run")
    return 1 if d else 0
