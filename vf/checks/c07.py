"""C07 - the k-mer prefilter never changes which adapter match is found."""
from . import _align_common as AC

PROP = "C07"


def run(tier):
    return AC.run(PROP, tier,
                  "same families as C01 restricted to configurations that build a real KmerFinder; match_to with the adapter's own "
                  "finder and with the always-true finder must give the same tuple or both None; non-trivial = the prefilter "
                  "answered 'absent' (alignment really skipped) or a match exists",
                  ["absent", "matches"],
                  ["letter symmetry of A,C,G,T (validated on family Asym)", "error-rate profiles"])


def replay(path):
    return AC.replay(PROP, path)
