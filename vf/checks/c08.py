"""C08 - an adapter index changes only speed, never what is found.

Exhaustive enumeration of small sets of anchored adapters (ordered pairs and triples, equal and different
lengths, one shared error rate so that the allowed error counts may differ) x indels on/off x prefix/suffix x
ALL reads up to a length (plus reads with one N), judged against exact distance tables from the C reference."""
import itertools
import json

from .. import alignsweep, common, refalign

PROP = "C08"
MOD = "vf.checks.c08"

RATES = [0.0, 0.25, 0.34, 0.5, 0.67]


def _scope(tier):
    if tier == "thorough":
        return dict(alpha="ACG", lens=(3, 4), nmax=7, triple_len=(3,), triple_second="ACG", rates=RATES + [0.75],
                    triple_rates=RATES, triple_nmax=6, triple4_alpha="AC")
    return dict(alpha="ACG", lens=(3, 4), nmax=6, triple_len=(3,), triple_second="ACG", rates=[0.0, 0.25, 0.34, 0.5],
                triple_rates=[0.34, 0.5, 0.67], triple_nmax=4)


def shards(tier):
    sc = _scope(tier)
    adapters = [a for L in sc["lens"] for a in alignsweep.strings(sc["alpha"], L, L)]
    firsts = [a for a in adapters if alignsweep.canonical(a) == a]
    out = []
    for a in firsts:
        for prefix in (True, False):
            out.append(dict(kind="pairs", first=a, prefix=prefix, tier=tier))
    t_ad = [a for L in sc["triple_len"] for a in alignsweep.strings(sc["triple_second"], L, L)]
    for a in [x for x in t_ad if alignsweep.canonical(x) == x]:
        for prefix in (True, False):
            out.append(dict(kind="triples", first=a, prefix=prefix, tier=tier))
    if sc.get("triple4_alpha"):
        for a in [x for x in alignsweep.strings(sc["triple4_alpha"], 4, 4) if alignsweep.canonical(x) == x]:
            for prefix in (True, False):
                out.append(dict(kind="triples4", first=a, prefix=prefix, tier=tier))
    return out


_RS = {}


def _reads(nmax):
    if nmax not in _RS:
        plain = list(alignsweep.strings("ACGT", nmax))
        withn = []
        for r in alignsweep.strings("ACGT", min(nmax, 4), 1):
            for i in range(len(r)):
                withn.append(r[:i] + "N" + r[i + 1:])
        withn = sorted(set(withn), key=lambda x: (len(x), x))
        rs = refalign.ReadSet(plain + withn)
        _RS[nmax] = (rs, len(plain))
    return _RS[nmax]


_TAB = {}


def _table(a, indels, prefix, nmax):
    key = (a, indels, prefix, nmax)
    if key not in _TAB:
        rs, _ = _reads(nmax)
        _TAB[key] = refalign.anchored_dists(rs, a, indels, prefix, nmax)
    return _TAB[key]


_OCC = {}


def _occ(a, indels, prefix, nmax, k):
    """bytes: 1 if adapter a occurs within k errors at the anchored end of read i."""
    key = (a, indels, prefix, nmax, k)
    if key not in _OCC:
        rs, _ = _reads(nmax)
        t = _table(a, indels, prefix, nmax)
        W = nmax + 1
        m = len(a)
        out = bytearray(rs.n)
        for ri in range(rs.n):
            base = ri * W
            if indels:
                out[ri] = 1 if min(t[base:base + W]) <= k else 0
            else:
                out[ri] = 1 if (m <= nmax and t[base + m] <= k) else 0
        _OCC[key] = bytes(out)
    return _OCC[key]


def run_shard(d):
    from cutadapt.adapters import (PrefixAdapter, SuffixAdapter, IndexedPrefixAdapters, IndexedSuffixAdapters,
                                   MultipleAdapters)

    sc = _scope(d["tier"])
    nmax = sc["nmax"] if d["kind"] == "pairs" else sc["triple_nmax"]
    rates = sc["rates"] if d["kind"] == "pairs" else sc["triple_rates"]
    rs, nplain = _reads(nmax)
    reads = rs.reads
    W = nmax + 1
    prefix = d["prefix"]
    Cls = PrefixAdapter if prefix else SuffixAdapter
    Idx = IndexedPrefixAdapters if prefix else IndexedSuffixAdapters
    res = dict(evals=0, builds=0, nontrivial=0, matches=0, clause2=0, clause3=0, viol=common.Viols(cap=3), samples=[])
    V = res["viol"]
    first = d["first"]
    if d["kind"] == "pairs":
        pool = [a for L in sc["lens"] for a in alignsweep.strings(sc["alpha"], L, L)]
        sets = [(first, b) for b in pool if b != first]
    elif d["kind"] == "triples4":
        pool = list(alignsweep.strings(sc["triple4_alpha"], 4, 4))
        sets = [(first, b, c) for b in pool for c in pool if len({first, b, c}) == 3]
    else:
        pool = [a for L in sc["triple_len"] for a in alignsweep.strings(sc["triple_second"], L, L)]
        pool = [a for a in pool if len(a) == len(first)]
        sets = [(first, b, c) for b in pool for c in pool if len({first, b, c}) == 3]
    for seqs in sets:
        for rate in rates:
            ks = [int(rate * len(s)) for s in seqs]
            if max(ks) > 3:
                continue
            for indels in (True, False):
                ads = [Cls(s, max_errors=rate, indels=indels, name=f"a{i}") for i, s in enumerate(seqs)]
                try:
                    idx = Idx(ads)
                except ValueError:
                    continue
                res["builds"] += 1
                tabs = [_table(s, indels, prefix, nmax) for s in seqs]
                ms = [len(s) for s in seqs]
                equal_len = len(set(ms)) == 1
                multi = MultipleAdapters(ads) if (equal_len and not indels) else None
                cfg = dict(adapters=list(seqs), rate=rate, indels=indels, end="5'" if prefix else "3'", allowed_errors=ks)
                byname = {f"a{i}": i for i in range(len(seqs))}
                match_to = idx.match_to
                nad = len(seqs)
                occs = [_occ(seqs[i], indels, prefix, nmax, ks[i]) for i in range(nad)]
                for ri in range(rs.n):
                    r = reads[ri]
                    n = len(r)
                    mt = match_to(r)
                    res["evals"] += 1
                    base = ri * W
                    nfree = ri < nplain
                    # which adapters occur within tolerance at the anchored end
                    occ = [i for i in range(nad) if occs[i][ri]]
                    if occ:
                        res["nontrivial"] += 1
                    if mt is not None:
                        res["matches"] += 1
                        w = byname.get(mt.adapter.name)
                        rstart, rstop = mt.rstart, mt.rstop
                        ok = w is not None and 0 <= rstart <= rstop <= n and mt.astart == 0 and mt.astop == ms[w]
                        if ok:
                            ok = (rstart == 0) if prefix else (rstop == n)
                        if not ok:
                            V.append(("coords", "reported coordinates lie outside the read / are not anchored",
                                      dict(cfg, read=r, match=[mt.adapter.sequence, mt.astart, mt.astop, rstart, rstop, mt.errors])))
                            continue
                        j = rstop - rstart
                        dist = tabs[w][base + j] if j <= nmax else 127
                        if mt.errors != dist or dist > ks[w]:
                            V.append(("errors", f"removed affix has true distance {dist} to the adapter (allowed {ks[w]}), reported {mt.errors}",
                                      dict(cfg, read=r, match=[mt.adapter.sequence, rstart, rstop, mt.errors])))
                            continue
                    if nfree and len(occ) == 1:
                        res["clause2"] += 1
                        if mt is None or byname.get(mt.adapter.name) != occ[0]:
                            V.append(("unique-missed", "exactly one indexed adapter occurs within tolerance but the index does not report it",
                                      dict(cfg, read=r, occurring=seqs[occ[0]],
                                           reported=None if mt is None else [mt.adapter.sequence, mt.rstart, mt.rstop, mt.errors])))
                    if multi is not None and nfree:
                        m = ms[0]
                        ds = sorted((tabs[i][base + m] if m <= n else 127) for i in range(len(seqs)))
                        if ds[0] < ds[1]:
                            res["clause3"] += 1
                            ot = multi.match_to(r)
                            a = None if mt is None else (mt.adapter.sequence, mt.rstart, mt.rstop, mt.errors)
                            b = None if ot is None else (ot.adapter.sequence, ot.rstart, ot.rstop, ot.errors)
                            if a != b:
                                V.append(("index-vs-linear", "indexed and one-by-one search disagree although the nearest adapter is unique",
                                          dict(cfg, read=r, indexed=a, one_by_one=b)))
                if len(res["samples"]) < 1 and rate == 0.34 and indels:
                    res["samples"].append(dict(cfg, reads=rs.n, example_read=reads[rs.n // 3]))
    return res


def run(tier):
    R = common.Result(PROP, tier, "exploration")
    refalign.build()
    sh = shards(tier)
    out = common.pmap(MOD, "run_shard", sh)
    tot = {}
    for d, r in zip(sh, out):
        for k, v in r.items():
            if isinstance(v, int):
                tot[k] = tot.get(k, 0) + v
        for s in r["samples"]:
            R.sample(s)
        for sig, what, case in r["viol"]:
            R.violation(f"{d['kind'].rstrip('4')}:{sig}:{'5p' if d['prefix'] else '3p'}", what, case)
    R.counters = tot
    R.assumptions = ["letter symmetry: the first adapter of every set is in canonical form, the others are arbitrary",
                     "distance tables from the C reference (cross-checked against the Python twin in C01)"]
    return R.finish(tot.get("evals", 0), tot.get("nontrivial", 0),
                    "adapter sets = all ordered pairs (first canonical) of strings over {A,C,G} of the stated lengths + all ordered "
                    "triples of equal-length strings; x 5-6 error rates (allowed errors 0-3, differing between adapters of different "
                    "length) x indels on/off x anchored 5'/3' x ALL reads over ACGT up to the stated length + reads with one N; "
                    "non-trivial = at least one adapter occurs within tolerance at the anchored end",
                    True, extra=dict(scope=_scope(tier)))


def replay(path):
    from cutadapt.adapters import PrefixAdapter, SuffixAdapter, IndexedPrefixAdapters, IndexedSuffixAdapters, MultipleAdapters

    with open(path) as f:
        v = json.load(f)
    print(json.dumps(v, indent=1))
    c = v["case"]
    prefix = c["end"] == "5'"
    Cls = PrefixAdapter if prefix else SuffixAdapter
    ads = [Cls(s, max_errors=c["rate"], indels=c["indels"], name=f"a{i}") for i, s in enumerate(c["adapters"])]
    idx = (IndexedPrefixAdapters if prefix else IndexedSuffixAdapters)(ads)
    mt = idx.match_to(c["read"])
    ot = MultipleAdapters(ads).match_to(c["read"])
    f = lambda m: None if m is None else [m.adapter.sequence, m.rstart, m.rstop, m.errors]
    print("indexed:", f(mt), "one-by-one:", f(ot))
    n = len(c["read"])
    bad = mt is not None and not (0 <= mt.rstart <= mt.rstop <= n)
    if v["sig"].split(":")[1] in ("index-vs-linear", "unique-missed"):
        bad = bad or f(mt) != f(ot)
    if mt is not None and not bad:
        w = ads.index(mt.adapter)
        d = refalign.distance(c["adapters"][w], c["read"][mt.rstart:mt.rstop], False, False, c["indels"])
        bad = d != mt.errors or d > c["allowed_errors"][w]
    return 1 if bad else 0
