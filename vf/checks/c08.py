"""C08 - an adapter index changes only speed, never what is found.

Exhaustive enumeration of small sets of anchored adapters (ordered pairs and triples, equal and different
lengths, one shared error rate so that the allowed error counts may differ) x indels on/off x prefix/suffix x
ALL reads up to a length (plus reads with one N), judged against exact distance tables from the C reference."""
import itertools
import json

from .. import alignsweep, common, refalign

PROP = "C08"
MOD = "vf.checks.c08"

RATES = [0.0, 0.25, 0.34, 0.5, 0.67]


def _scope(tier):
    if tier == "thorough":
        return dict(alpha="ACG", lens=(3, 4), nmax=7, triple_len=(3,), triple_second="ACG", rates=RATES + [0.75],
                    triple_rates=RATES, triple_nmax=6, triple4_alpha="AC")
    return dict(alpha="ACG", lens=(3, 4), nmax=6, triple_len=(3,), triple_second="ACG", rates=[0.0, 0.25, 0.34, 0.5],
                triple_rates=[0.34, 0.5, 0.67], triple_nmax=4)


def shards(tier):
    sc = _scope(tier)
    adapters = [a for L in sc["lens"] for a in alignsweep.strings(sc["alpha"], L, L)]
    firsts = [a for a in adapters if alignsweep.canonical(a) == a]
    out = []
    for a in firsts:
        for prefix in (True, False):
            out.append(dict(kind="pairs", first=a, prefix=prefix, tier=tier))
    t_ad = [a for L in sc["triple_len"] for a in alignsweep.strings(sc["triple_second"], L, L)]
    for a in [x for x in t_ad if alignsweep.canonical(x) == x]:
        for prefix in (True, False):
            out.append(dict(kind="triples", first=a, prefix=prefix, tier=tier))
    if sc.get("triple4_alpha"):
        for a in [x for x in alignsweep.strings(sc["triple4_alpha"], 4, 4) if alignsweep.canonical(x) == x]:
            for prefix in (True, False):
                out.append(dict(kind="triples4", first=a, prefix=prefix, tier=tier))
    for a in [x for x in alignsweep.strings("ACG", 3, 3) if alignsweep.canonical(x) == x]:
        for prefix in (True, False):
            out.append(dict(kind="mixed", first=a, prefix=prefix, tier=tier))
    # the grouping of a mixed adapter list into indexes (AdapterCutter): with and without index the same unique adapter is applied
    for part in range(4):
        out.append(dict(kind="cutter", part=part, parts=4, tier=tier, first=None, prefix=True))
    # operation sequences of depth two on one index object: every ordered pair of reads (N reads included) consecutively
    for seqs in (("AAA", "AAC"), ("ACG", "AACA"), ("ACGA", "ACGT", "AGGT")):
        for prefix in (True, False):
            out.append(dict(kind="history", seqs=seqs, prefix=prefix, tier=tier, first=None))
    # lengths at which an absolute error count k, stored as the rate k/L, comes back as int(rate * L) == k - 1 (47, 49),
    # with 48 as a control: index and adapters must agree on the tolerance there, too
    # (37, 3), (41, 2), (61, 2): the product also truncates when it is formed in single precision
    for L, k in ((49, 1), (49, 2), (48, 1), (48, 2), (37, 3), (41, 2), (61, 2)) + (((47, 3), (55, 2)) if tier == "thorough" else ()):
        for prefix in (True, False):
            out.append(dict(kind="rounding", len=L, k=k, prefix=prefix, tier=tier, first=None))
    return out


ROUND_SEEDS = ["ACGTTGCAAGCTTCGA", "GATTACAGGCTTAACC", "TTGGCCAATCGATCGA"]


def _mutants(s, emax):
    """s with e = 0..emax substitutions: every single position, position pairs at three strides, triples at one pattern."""
    nxt = {"A": "C", "C": "G", "G": "T", "T": "A"}
    L = len(s)

    def sub(pos):
        t = list(s)
        for p in pos:
            t[p] = nxt[t[p]]
        return "".join(t)

    out = [((), s)]
    if emax >= 1:
        out += [((i,), sub((i,))) for i in range(L)]
    if emax >= 2:
        out += [((i, i + d), sub((i, i + d))) for d in (1, 7, 23) for i in range(0, L - d, 2)]
    if emax >= 3:
        out += [((i, i + 5, i + 11), sub((i, i + 5, i + 11))) for i in range(0, L - 11, 3)]
    if emax >= 4:
        out += [((i, i + 3, i + 9, i + 17), sub((i, i + 3, i + 9, i + 17))) for i in range(0, L - 17, 5)]
    return out


CUTTER_POOL = [("front", "^ACG"), ("front", "^AAC"), ("front", "^ACGA"), ("back", "CGT$"), ("back", "GGT$"), ("back", "ACGT$"), ("back", "TTG"),
               ("front", "GAT"), ("front", "^GTT"), ("front", "^TCA"), ("back", "TAC$"), ("back", "CCA$")]
# indices of the anchored 5' / anchored 3' / regular entries, for the list shapes with four and five adapters of one kind
_P5, _P3, _REG = [0, 1, 2, 8, 9], [3, 4, 5, 10, 11], [6, 7]


def run_cutter(d, res):
    """AdapterCutter regroups a list of adapters into indexes for the anchored 5' and the anchored 3' ones: every adapter of the list
    must still be searched.  For every list of 3-4 adapters from a pool (1-3 anchored 5', 1-3 anchored 3', regular ones) and every
    read: if exactly one adapter of the list matches the read on its own, the cutter built WITH index must apply exactly that adapter
    and give the read the cutter WITHOUT index gives."""
    from cutadapt.info import ModificationInfo
    from cutadapt.modifiers import AdapterCutter
    from cutadapt.parser import make_adapters_from_specifications
    from dnaio import SequenceRecord

    V = res["viol"]
    R = [r for r in alignsweep.strings("ACGT", 6 if d["tier"] == "thorough" else 5)]
    lists = [c for n in (3, 4) for c in itertools.combinations(range(8), n)]
    lists = [c for c in lists if any(CUTTER_POOL[i][1].startswith("^") for i in c) and any(CUTTER_POOL[i][1].endswith("$") for i in c)]
    # larger groups: p anchored 5' + s anchored 3' (+ a regular one) for every (p, s) with one side of four or five
    for p_ in range(1, 6):
        for s_ in range(1, 6):
            if max(p_, s_) >= 4:
                lists.append(tuple(_P5[:p_] + _P3[:s_]))
                if p_ + s_ <= 6:
                    lists.append(tuple(_P5[:p_] + _REG[:1] + _P3[:s_]))
    lists = lists[d["part"]:: d["parts"]]
    for combo in lists:
        for order in (combo, combo[::-1]):
            specs = [(CUTTER_POOL[i][0], f"a{i}={CUTTER_POOL[i][1]}") for i in order]
            for rate, indels in ((0.0, False), (0.34, False), (0.34, True)):
                params = dict(max_errors=rate, min_overlap=3, read_wildcards=False, adapter_wildcards=True, indels=indels)
                ads = make_adapters_from_specifications(specs, params)
                with_index = AdapterCutter(ads, times=1, action="trim", index=True)
                without = AdapterCutter(make_adapters_from_specifications(specs, params), times=1, action="trim", index=False)
                res["builds"] += 1
                cfg = dict(adapters=[s_ for _, s_ in specs], types=[t for t, _ in specs], rate=rate, indels=indels, family="cutter")
                for r in R:
                    alone = [a.name for a in ads if a.match_to(r) is not None]
                    res["evals"] += 1
                    if len(alone) != 1:
                        continue
                    res["clause2"] += 1
                    res["nontrivial"] += 1
                    q = "".join(chr(48 + k) for k in range(len(r)))
                    i1, i2 = ModificationInfo(SequenceRecord("r", r, q)), ModificationInfo(SequenceRecord("r", r, q))
                    o1 = with_index(SequenceRecord("r", r, q), i1)
                    o2 = without(SequenceRecord("r", r, q), i2)
                    n1, n2 = [m.adapter.name for m in i1.matches], [m.adapter.name for m in i2.matches]
                    # with indels the index may remove a longer or shorter (equally genuine) occurrence of the same adapter than the
                    # one-by-one search: the read itself is compared only without indels
                    if n1 != alone or (not indels and (o1.sequence, o1.qualities) != (o2.sequence, o2.qualities)):
                        V.append(("cutter", "with the default grouping into indexes the adapter that alone matches the read is not applied as "
                                  "without index", dict(cfg, read=r, matching_alone=alone, with_index=[n1, o1.sequence], without_index=[n2, o2.sequence])))
    return res


def run_history(d, res):
    """The answer of an index for a read must not depend on the reads looked up before (the index is one long-lived object per
    run and worker).  Calls in a de Bruijn order: every ordered pair of reads occurs as two consecutive calls."""
    from cutadapt.adapters import PrefixAdapter, SuffixAdapter, IndexedPrefixAdapters, IndexedSuffixAdapters

    from .. import histsweep

    V = res["viol"]
    prefix = d["prefix"]
    Cls = PrefixAdapter if prefix else SuffixAdapter
    Idx = IndexedPrefixAdapters if prefix else IndexedSuffixAdapters
    plain = list(alignsweep.strings("ACGT", 4 if d["tier"] == "thorough" else 3))
    withn = sorted({r[:i] + "N" + r[i + 1:] for r in alignsweep.strings("ACGT", 4 if d["tier"] == "thorough" else 3, 1)
                    for i in range(len(r))}, key=lambda x: (len(x), x))
    withn += ["ACGN", "NCGT", "ACNT", "AANA", "NACA", "AACN", "ACGNA", "NCGTA", "ACGAN", "NGGT"]
    R = plain + withn + [x.lower() for x in plain[5:40:3]] + ["ACGTACGTACGT", "AAAAAAAA"]
    order = histsweep.euler(len(R))
    tup = lambda m: None if m is None else (m.adapter.name, m.rstart, m.rstop, m.errors, m.score)
    for rate in (0.34, 0.5):
        for indels in (True, False):
            mk = lambda: Idx([Cls(s_, max_errors=rate, indels=indels, name=f"a{i}") for i, s_ in enumerate(d["seqs"])])
            try:
                idx, base_idx = mk(), mk()
            except ValueError:
                continue
            res["builds"] += 2
            base = [tup(base_idx.match_to(r)) for r in R]
            cfg = dict(adapters=list(d["seqs"]), rate=rate, indels=indels, end="5'" if prefix else "3'", family="history")
            mt = idx.match_to
            prev = None
            bad = 0
            for i in order:
                got = tup(mt(R[i]))
                if got != base[i]:
                    bad += 1
                    V.append(("history", "the index answers differently for a read depending on the read looked up before it",
                              dict(cfg, read=R[i], previous_read=None if prev is None else R[prev], answer=got, standalone=base[i])))
                    if bad > 3:
                        break
                prev = i
            res["evals"] += len(order)
            res["nontrivial"] += sum(1 for b in base if b is not None)
    return res


def run_rounding(d, res):
    from cutadapt.adapters import (PrefixAdapter, SuffixAdapter, IndexedPrefixAdapters, IndexedSuffixAdapters, MultipleAdapters)

    V = res["viol"]
    L, k, prefix = d["len"], d["k"], d["prefix"]
    Cls = PrefixAdapter if prefix else SuffixAdapter
    Idx = IndexedPrefixAdapters if prefix else IndexedSuffixAdapters
    seqs = [(x * 4)[:L] for x in ROUND_SEEDS]
    for indels in ((False, True) if k == 1 else (False,)):
        ads = [Cls(s_, max_errors=k, indels=indels, name=f"a{i}") for i, s_ in enumerate(seqs)]
        allowed = [int(a.max_error_rate * len(a.sequence)) for a in ads]
        idx = Idx(ads)
        res["builds"] += 1
        multi = MultipleAdapters(ads)
        cfg = dict(adapters=seqs, max_errors=k, rate=ads[0].max_error_rate, indels=indels, end="5'" if prefix else "3'",
                   allowed_errors=allowed, family="rounding")
        for w, s_ in enumerate(seqs):
            for pos, mut in _mutants(s_, k + 1):
                for flank in ("", "GGA"):
                    r = (mut + flank) if prefix else (flank + mut)
                    n = len(r)
                    mt = idx.match_to(r)
                    ot = multi.match_to(r)
                    res["evals"] += 1
                    res["nontrivial"] += 1
                    e = len(pos)
                    a = None if mt is None else (mt.adapter.name, mt.rstart, mt.rstop, mt.errors)
                    b = None if ot is None else (ot.adapter.name, ot.rstart, ot.rstop, ot.errors)
                    if mt is not None:
                        res["matches"] += 1
                        ok = 0 <= mt.rstart <= mt.rstop <= n and ((mt.rstart == 0) if prefix else (mt.rstop == n))
                        if not ok:
                            V.append(("coords", "reported coordinates lie outside the read / are not anchored", dict(cfg, read=r, match=list(a))))
                            continue
                        wi = int(mt.adapter.name[1:])
                        dist = refalign.distance(seqs[wi], r[mt.rstart:mt.rstop], False, False, indels)
                        if dist != mt.errors or dist > allowed[wi]:
                            V.append(("errors", f"removed affix has true distance {dist} to the adapter (allowed {allowed[wi]}), reported {mt.errors}",
                                      dict(cfg, read=r, match=list(a))))
                            continue
                    # the mutated adapter is the only one anywhere near: within tolerance it must be reported
                    if e <= allowed[w]:
                        res["clause2"] += 1
                        if mt is None or mt.adapter.name != f"a{w}":
                            V.append(("unique-missed", "exactly one indexed adapter occurs within tolerance but the index does not report it",
                                      dict(cfg, read=r, occurring=s_, reported=None if a is None else list(a))))
                    if not indels:
                        res["clause3"] += 1
                        if a != b:
                            V.append(("index-vs-linear", "indexed and one-by-one search disagree although the nearest adapter is unique",
                                      dict(cfg, read=r, indexed=a, one_by_one=b)))
    return res


_RS = {}


def _reads(nmax):
    if nmax not in _RS:
        plain = list(alignsweep.strings("ACGT", nmax))
        withn = []
        for r in alignsweep.strings("ACGT", min(nmax, 4), 1):
            for i in range(len(r)):
                withn.append(r[:i] + "N" + r[i + 1:])
        withn = sorted(set(withn), key=lambda x: (len(x), x))
        rs = refalign.ReadSet(plain + withn)
        _RS[nmax] = (rs, len(plain))
    return _RS[nmax]


_TAB = {}


def _table(a, indels, prefix, nmax):
    key = (a, indels, prefix, nmax)
    if key not in _TAB:
        rs, _ = _reads(nmax)
        _TAB[key] = refalign.anchored_dists(rs, a, indels, prefix, nmax)
    return _TAB[key]


_OCC = {}


def _occ(a, indels, prefix, nmax, k):
    """bytes: 1 if adapter a occurs within k errors at the anchored end of read i."""
    key = (a, indels, prefix, nmax, k)
    if key not in _OCC:
        rs, _ = _reads(nmax)
        t = _table(a, indels, prefix, nmax)
        W = nmax + 1
        m = len(a)
        out = bytearray(rs.n)
        for ri in range(rs.n):
            base = ri * W
            if indels:
                out[ri] = 1 if min(t[base:base + W]) <= k else 0
            else:
                out[ri] = 1 if (m <= nmax and t[base + m] <= k) else 0
        _OCC[key] = bytes(out)
    return _OCC[key]


def run_shard(d):
    from cutadapt.adapters import (PrefixAdapter, SuffixAdapter, IndexedPrefixAdapters, IndexedSuffixAdapters,
                                   MultipleAdapters)

    sc = _scope(d["tier"])
    nmax = sc["nmax"] if d["kind"] in ("pairs", "rounding", "history", "cutter") else sc["triple_nmax"]
    rates = sc["rates"] if d["kind"] == "pairs" else sc["triple_rates"]
    rs, nplain = _reads(nmax)
    reads = rs.reads
    W = nmax + 1
    prefix = d["prefix"]
    Cls = PrefixAdapter if prefix else SuffixAdapter
    Idx = IndexedPrefixAdapters if prefix else IndexedSuffixAdapters
    res = dict(evals=0, builds=0, nontrivial=0, matches=0, clause2=0, clause3=0, viol=common.Viols(cap=3), samples=[])
    V = res["viol"]
    if d["kind"] == "rounding":
        return run_rounding(d, res)
    if d["kind"] == "history":
        return run_history(d, res)
    if d["kind"] == "cutter":
        return run_cutter(d, res)
    case_nmax = 4
    first = d["first"]
    if d["kind"] == "pairs":
        pool = [a for L in sc["lens"] for a in alignsweep.strings(sc["alpha"], L, L)]
        sets = [(first, b) for b in pool if b != first]
    elif d["kind"] == "mixed":
        pool = list(alignsweep.strings("AC" if d["tier"] != "thorough" else "ACG", 3, 3))
        sets = [(first, b, c) for b in pool for c in pool if len({first, b, c}) == 3]
    elif d["kind"] == "triples4":
        pool = list(alignsweep.strings(sc["triple4_alpha"], 4, 4))
        sets = [(first, b, c) for b in pool for c in pool if len({first, b, c}) == 3]
    else:
        pool = [a for L in sc["triple_len"] for a in alignsweep.strings(sc["triple_second"], L, L)]
        pool = [a for a in pool if len(a) == len(first)]
        sets = [(first, b, c) for b in pool for c in pool if len({first, b, c}) == 3]
    if d["kind"] == "mixed":
        # per-adapter tolerances (';e=' inline or in an adapter file): every non-uniform vector over three rates
        vals = (0.0, 0.34, 0.67)
        rates = [v for v in itertools.product(vals, repeat=3) if len(set(v)) > 1]
    for seqs in sets:
        for rate in rates:
            rvec = rate if isinstance(rate, tuple) else (rate,) * len(seqs)
            ks = [int(rv * len(s)) for rv, s in zip(rvec, seqs)]
            if max(ks) > 3:
                continue
            for indels in (True, False):
                ads = [Cls(s, max_errors=rv, indels=indels, name=f"a{i}") for i, (s, rv) in enumerate(zip(seqs, rvec))]
                try:
                    idx = Idx(ads)
                except ValueError:
                    continue
                res["builds"] += 1
                tabs = [_table(s, indels, prefix, nmax) for s in seqs]
                ms = [len(s) for s in seqs]
                equal_len = len(set(ms)) == 1
                multi = MultipleAdapters(ads) if (equal_len and not indels) else None
                cfg = dict(adapters=list(seqs), rate=rate if not isinstance(rate, tuple) else None, rates=list(rvec), indels=indels,
                           end="5'" if prefix else "3'", allowed_errors=ks)
                byname = {f"a{i}": i for i in range(len(seqs))}
                match_to = idx.match_to
                nad = len(seqs)
                occs = [_occ(seqs[i], indels, prefix, nmax, ks[i]) for i in range(nad)]
                for ri in range(rs.n):
                    r = reads[ri]
                    n = len(r)
                    mt = match_to(r)
                    res["evals"] += 1
                    base = ri * W
                    nfree = ri < nplain
                    # which adapters occur within tolerance at the anchored end
                    occ = [i for i in range(nad) if occs[i][ri]]
                    if occ:
                        res["nontrivial"] += 1
                    if mt is not None:
                        res["matches"] += 1
                        w = byname.get(mt.adapter.name)
                        rstart, rstop = mt.rstart, mt.rstop
                        ok = w is not None and 0 <= rstart <= rstop <= n and mt.astart == 0 and mt.astop == ms[w]
                        if ok:
                            ok = (rstart == 0) if prefix else (rstop == n)
                        if not ok:
                            V.append(("coords", "reported coordinates lie outside the read / are not anchored",
                                      dict(cfg, read=r, match=[mt.adapter.sequence, mt.astart, mt.astop, rstart, rstop, mt.errors])))
                            continue
                        j = rstop - rstart
                        dist = tabs[w][base + j] if j <= nmax else 127
                        if mt.errors != dist or dist > ks[w]:
                            V.append(("errors", f"removed affix has true distance {dist} to the adapter (allowed {ks[w]}), reported {mt.errors}",
                                      dict(cfg, read=r, match=[mt.adapter.sequence, rstart, rstop, mt.errors])))
                            continue
                    if n <= case_nmax and n:
                        # lower- and mixed-case spellings of the read must give the same answer (coordinates, adapter, errors)
                        a = None if mt is None else (mt.adapter.name, mt.rstart, mt.rstop, mt.errors)
                        for sp in (r.lower(), "".join(ch.lower() if k % 2 else ch for k, ch in enumerate(r))):
                            lt = match_to(sp)
                            res["evals"] += 1
                            b = None if lt is None else (lt.adapter.name, lt.rstart, lt.rstop, lt.errors)
                            if a != b:
                                V.append(("case", "the index answers differently for a lower-/mixed-case spelling of the same read",
                                          dict(cfg, read=sp, upper_case_answer=a, answer=b)))
                    if nfree and len(occ) == 1:
                        res["clause2"] += 1
                        if mt is None or byname.get(mt.adapter.name) != occ[0]:
                            V.append(("unique-missed", "exactly one indexed adapter occurs within tolerance but the index does not report it",
                                      dict(cfg, read=r, occurring=seqs[occ[0]],
                                           reported=None if mt is None else [mt.adapter.sequence, mt.rstart, mt.rstop, mt.errors])))
                    if multi is not None and nfree:
                        m = ms[0]
                        dall = [(tabs[i][base + m] if m <= n else 127) for i in range(len(seqs))]
                        ds = sorted(dall)
                        # with per-adapter tolerances the nearest adapter may be out of ITS tolerance while two farther ones tie
                        # within theirs: agreement is demanded only if the nearest adapters are not tied under either reading
                        cand = sorted(dall[i] for i in range(len(seqs)) if dall[i] <= ks[i])
                        if ds[0] < ds[1] and (len(cand) < 2 or cand[0] < cand[1]):
                            res["clause3"] += 1
                            ot = multi.match_to(r)
                            a = None if mt is None else (mt.adapter.sequence, mt.rstart, mt.rstop, mt.errors)
                            b = None if ot is None else (ot.adapter.sequence, ot.rstart, ot.rstop, ot.errors)
                            if a != b:
                                V.append(("index-vs-linear", "indexed and one-by-one search disagree although the nearest adapter is unique",
                                          dict(cfg, read=r, indexed=a, one_by_one=b)))
                if len(res["samples"]) < 1 and rate == 0.34 and indels:
                    res["samples"].append(dict(cfg, reads=rs.n, example_read=reads[rs.n // 3]))
    return res


def run(tier):
    R = common.Result(PROP, tier, "exploration")
    refalign.build()
    sh = shards(tier)
    out = common.pmap(MOD, "run_shard", sh)
    tot = {}
    for d, r in zip(sh, out):
        for k, v in r.items():
            if isinstance(v, int):
                tot[k] = tot.get(k, 0) + v
        for s in r["samples"]:
            R.sample(s)
        for sig, what, case in r["viol"]:
            R.violation(f"{d['kind'].rstrip('4')}:{sig}:{'5p' if d['prefix'] else '3p'}", what, case)
    R.counters = tot
    R.assumptions = ["letter symmetry: the first adapter of every set is in canonical form, the others are arbitrary",
                     "distance tables from the C reference (cross-checked against the Python twin in C01)"]
    return R.finish(tot.get("evals", 0), tot.get("nontrivial", 0),
                    "adapter sets = all ordered pairs (first canonical) of strings over {A,C,G} of the stated lengths + all ordered "
                    "triples of equal-length strings (+ triples with PER-ADAPTER tolerances: every non-uniform vector over three rates); x 5-6 error rates (allowed errors 0-3, differing between adapters of different "
                    "length) x indels on/off x anchored 5'/3' x ALL reads over ACGT up to the stated length + reads with one N, each also in lower and "
                    "mixed case; + three adapters of lengths 47-49 with ABSOLUTE error counts (where k/L*L truncates to k-1) against every "
                    "0..k+1-substitution neighbour pattern listed in the source; + every ORDERED PAIR of ~700 reads (plain, one N, lower case) "
                    "as consecutive look-ups in one index object (three adapter sets); + AdapterCutter with and without index on every list of 3-4 adapters "
                    "from a 12-entry pool (groups of one to five anchored 5' / anchored 3' adapters) mixing anchored 5', anchored 3' and regular adapters (reads on which exactly one adapter matches); "
                    "non-trivial = at least one adapter occurs within tolerance at the anchored end",
                    True, extra=dict(scope=_scope(tier)))


def replay(path):
    from cutadapt.adapters import PrefixAdapter, SuffixAdapter, IndexedPrefixAdapters, IndexedSuffixAdapters, MultipleAdapters

    with open(path) as f:
        v = json.load(f)
    print(json.dumps(v, indent=1))
    c = v["case"]
    if c.get("family") == "cutter":
        import sys
        return common.replay_by_rerun(sys.modules[__name__], PROP, path)
    prefix = c["end"] == "5'"
    Cls = PrefixAdapter if prefix else SuffixAdapter
    rv = c.get("rates") or [c.get("max_errors", c.get("rate"))] * len(c["adapters"])
    if c.get("max_errors") is not None:
        rv = [c["max_errors"]] * len(c["adapters"])
    ads = [Cls(s, max_errors=rv[i], indels=c["indels"], name=f"a{i}") for i, s in enumerate(c["adapters"])]
    idx = (IndexedPrefixAdapters if prefix else IndexedSuffixAdapters)(ads)
    if v["sig"].split(":")[1] == "history":
        g = lambda m: None if m is None else (m.adapter.name, m.rstart, m.rstop, m.errors)
        alone = g(idx.match_to(c["read"]))
        idx2 = (IndexedPrefixAdapters if prefix else IndexedSuffixAdapters)(
            [Cls(s, max_errors=rv[i], indels=c["indels"], name=f"a{i}") for i, s in enumerate(c["adapters"])])
        if c.get("previous_read") is not None:
            idx2.match_to(c["previous_read"])
        after = g(idx2.match_to(c["read"]))
        print("standalone:", alone, " after", repr(c.get("previous_read")), ":", after)
        return 0 if alone == after else 1
    if v["sig"].split(":")[1] == "case":
        g = lambda m: None if m is None else (m.adapter.name, m.rstart, m.rstop, m.errors)
        up, lo = g(idx.match_to(c["read"].upper())), g(idx.match_to(c["read"]))
        print("upper-case spelling:", up, " given spelling:", lo)
        return 0 if up == lo else 1
    mt = idx.match_to(c["read"])
    ot = MultipleAdapters(ads).match_to(c["read"])
    f = lambda m: None if m is None else [m.adapter.sequence, m.rstart, m.rstop, m.errors]
    print("indexed:", f(mt), "one-by-one:", f(ot))
    n = len(c["read"])
    bad = mt is not None and not (0 <= mt.rstart <= mt.rstop <= n)
    if v["sig"].split(":")[1] in ("index-vs-linear", "unique-missed"):
        bad = bad or f(mt) != f(ot)
    if mt is not None and not bad:
        w = ads.index(mt.adapter)
        d = refalign.distance(c["adapters"][w], c["read"][mt.rstart:mt.rstop].upper(), False, False, c["indels"])
        bad = d != mt.errors or d > c["allowed_errors"][w]
    return 1 if bad else 0
