"""C09 - best-adapter choice, repeated rounds and linked adapters follow the stated rules.

Modifier seam: AdapterCutter(adapters, times, action, index=False) on ALL reads over ACGT up to a length, for
every ordered list of 1-2 (thorough 1-3) adapters from a 20-adapter menu (every type, near-duplicates that tie,
linked adapters with every required/optional combination).  Oracle (vf.refpipe): each adapter's own match_to +
the stated combination rules.  A command-line pass binds the seam to cutadapt --no-index."""
import itertools
import json
import os

from .. import alignsweep, clih, common, refpipe

PROP = "C09"
MOD = "vf.checks.c09"

MENU = [
    ("back", "b1=ACG"), ("back", "b2=ACGT"), ("back", "b3=CGT"), ("front", "f1=ACG"), ("front", "f2=TAC"), ("anywhere", "w1=CGA"),
    ("front", "p1=^AC"), ("back", "s1=GT$"), ("back", "n1=GTAX"), ("front", "r1=AC;rightmost"), ("front", "x1=XTAC"),
    ("back", "l1=^AC...GT"), ("back", "l2=AC...GT"), ("front", "l3=AC...GT"), ("back", "l4=^AC;optional...GT"),
    ("front", "l5=AC...GT;optional"), ("back", "b1=CGTA"),
    # linked adapters whose parts are long enough to match with an error, a competitor that ties on score with fewer errors,
    # and a linked adapter whose anchored 3' part can be longer than what the 5' part leaves
    ("back", "l6=ACG...TGC"), ("back", "b4=GTGC"), ("back", "l7=^AC...GTAC$"),
]
ACTIONS = ["trim", "none", "lowercase", "mask", "retain", "crop"]


def make(specs):
    from cutadapt.parser import make_adapters_from_specifications

    return make_adapters_from_specifications(list(specs), dict(max_errors=0.34, min_overlap=2, read_wildcards=False,
                                                              adapter_wildcards=True, indels=True))


def documented_required(typ, spec):
    """(5' part required, 3' part required) of a linked specification by the documented rules: -g requires both parts, -a only the
    anchored ones; ';required' / ';optional' on a part override."""
    body = spec.split("=", 1)[1] if "=" in spec.split("...")[0] else spec
    f, b = body.split("...")
    out = []
    for part, anchored in ((f, f.split(";")[0].startswith("^")), (b, b.split(";")[0].endswith("$"))):
        params = part.split(";")[1:]
        req = True if typ == "front" else anchored
        if "required" in params:
            req = True
        if "optional" in params:
            req = False
        out.append(req)
    return tuple(out)


def lists(tier):
    idx = range(len(MENU))
    out = [(i,) for i in idx] + list(itertools.permutations(idx, 2))
    if tier == "thorough":
        out += [t for t in itertools.permutations(idx, 3) if (t[0] * 7 + t[1] * 3 + t[2]) % 4 == 0]
    return out


def shards(tier):
    L = lists(tier)
    n = 64
    sh = [dict(kind="modifier", tier=tier, idx=list(range(i, len(L), n))) for i in range(n)]
    sh += [dict(kind="cli", tier=tier, part=i, parts=8) for i in range(8)]
    return sh


_READS = {}


def reads(nmax):
    if nmax not in _READS:
        _READS[nmax] = list(alignsweep.strings("ACGT", nmax))
    return _READS[nmax]


def uq(n):
    return "".join(chr(48 + i) for i in range(n))


def _sweep(cutter, ads, cfg, R, times, action, res):
    from cutadapt.info import ModificationInfo
    from dnaio import SequenceRecord

    V = res["viol"]
    for r in R:
        n = len(r)
        q = uq(n)
        rec = SequenceRecord("r", r, q)
        info = ModificationInfo(rec)
        out = cutter(rec, info)
        res["evals"] += 1
        matches, kept = refpipe.adapter_rounds(ads, r, times)
        es, eq = refpipe.apply_action(r, q, matches, kept, action)
        if len(matches) >= 1:
            res["nontrivial"] += 1
        if len(matches) >= 2:
            res["multi_round"] += 1
        got_names = [m.adapter.name for m in info.matches]
        exp_names = [m.name for m in matches]
        if out.sequence != es or out.qualities != eq:
            V.append((f"{action}:read", "trimmed read differs from the stated rules (best score, fewer errors, first given; one "
                      "adapter per round on the already trimmed read; action applied once to the original read)",
                      dict(cfg, read=r, got=[out.sequence, out.qualities], expected=[es, eq], rounds=exp_names)))
        elif got_names != exp_names:
            V.append((f"{action}:matches", "sequence of applied adapters differs from the stated rules",
                      dict(cfg, read=r, got=got_names, expected=exp_names)))
        elif len(out.sequence) != len(out.qualities):
            V.append((f"{action}:length", "sequence and qualities out of step", dict(cfg, read=r)))


def run_shard(d):
    if d["kind"] == "cli":
        return run_cli_shard(d)
    from cutadapt.adapters import IndexedPrefixAdapters, IndexedSuffixAdapters, LinkedAdapter
    from cutadapt.info import ModificationInfo
    from cutadapt.modifiers import AdapterCutter
    from dnaio import SequenceRecord

    L = lists(d["tier"])
    nmax = 6 if d["tier"] == "quick" else 7
    R = reads(nmax)
    res = dict(evals=0, nontrivial=0, multi_round=0, linked_untouched=0, default_index_lists=0, viol=common.Viols(cap=3), samples=[])
    V = res["viol"]
    for li in d["idx"]:
        combo = L[li]
        specs = [MENU[i] for i in combo]
        ads = make(specs)
        has_linked = any(isinstance(a, LinkedAdapter) for a in ads)
        for (typ, spec), a in zip(specs, ads):
            if isinstance(a, LinkedAdapter) and (bool(a.front_required), bool(a.back_required)) != documented_required(typ, spec):
                V.append(("linked:required", f"linked adapter {spec!r} given as {typ}: required parts (5', 3') = "
                          f"{(a.front_required, a.back_required)}, documented {documented_required(typ, spec)}", dict(types=[typ], adapters=[spec])))
        for times in (1, 2, 3):
            for action in ACTIONS:
                if action in ("retain", "crop") and times > 1:
                    continue
                if has_linked and action in ("mask", "crop"):
                    continue  # documented as unsupported for linked adapters
                act = None if action == "none" else action
                cutters = [(False, AdapterCutter(ads, times=times, action=act, index=False))]
                if len(ads) > 1 and times < 3 and action == "trim":
                    # default indexing: whenever no index gets built for this list, the stated rules apply unchanged
                    c2 = AdapterCutter(ads, times=times, action=act, index=True)
                    if not any(isinstance(a, (IndexedPrefixAdapters, IndexedSuffixAdapters)) for a in c2.adapters):
                        cutters.append((True, c2))
                        res["default_index_lists"] += 1
                for use_index, cutter in cutters:
                    cfg = dict(adapters=[s for _, s in specs], types=[t for t, _ in specs], times=times, action=action, index=use_index)
                    _sweep(cutter, ads, cfg, R, times, action, res)
                if len(res["samples"]) < 1 and len(combo) == 2 and times == 2 and action == "trim":
                    res["samples"].append(dict(cfg, reads=len(R), example="ACGTAC"))
    return res


def run_cli_shard(d):
    """Bind the seam to the command line: cutadapt [--no-index] --rename '{id} {adapter_name}' on a corpus."""
    from cutadapt.adapters import IndexedPrefixAdapters, IndexedSuffixAdapters
    from cutadapt.modifiers import AdapterCutter

    res = dict(evals=0, nontrivial=0, multi_round=0, linked_untouched=0, viol=common.Viols(cap=3), samples=[], cli_runs=0)
    V = res["viol"]
    L = [c for c in lists("quick") if len(c) == 2]
    L = [c for k, c in enumerate(L) if k % d["parts"] == d["part"]]
    R = [r for r in reads(6) if len(r) >= 3][:: 7]
    recs = [(f"r{i}", r, uq(len(r))) for i, r in enumerate(R)]
    wd = clih.fresh_dir("c09")
    inp = os.path.join(wd, "in.fq")
    clih.write_text(inp, clih.fastq_text(recs))
    out = os.path.join(wd, "out.fq")
    flag = {"back": "-a", "front": "-g", "anywhere": "-b"}
    for combo in L:
        specs = [MENU[i] for i in combo]
        ads = make(specs)
        built = any(isinstance(a, (IndexedPrefixAdapters, IndexedSuffixAdapters)) for a in AdapterCutter(ads, index=True).adapters)
        for times, noindex in ((1, True), (2, True), (1, False), (2, False)):
            if not noindex and built:
                continue  # an index is involved: outside this property (C08)
            argv = (["--no-index"] if noindex else []) + ["-e", "0.34", "-O", "2", "--times", str(times), "--rename", "{id} {adapter_name}",
                                                          "-o", out]
            for t, s in specs:
                argv += [flag[t], s]
            r = clih.run_cli(argv + [inp])
            res["cli_runs"] += 1
            cfg = dict(adapters=[s for _, s in specs], types=[t for t, _ in specs], times=times, action="trim", seam="cli",
                       index=not noindex)
            if r.exit != 0:
                V.append(("cli:failed", f"cutadapt failed: {r.exit} {r.exc} {r.errors()[:1]}", cfg))
                continue
            got = clih.read_records(out)[1]
            for (nm, s, q), g in zip(recs, got):
                res["evals"] += 1
                matches, kept = refpipe.adapter_rounds(ads, s, times)
                es, eq = refpipe.apply_action(s, q, matches, kept, "trim")
                en = f"{nm} {matches[-1].name if matches else 'no_adapter'}"
                if matches:
                    res["nontrivial"] += 1
                if tuple(g) != (en, es, eq):
                    V.append(("cli:record", "command-line output differs from the stated rules", dict(cfg, read=s, got=list(g), expected=[en, es, eq])))
                    break
    if d["part"] == 0:
        _file_spec_scenarios(wd, res)
    clih.rmtree(wd)
    return res


def _file_spec_scenarios(wd, res):
    """Adapters from a FASTA file with file-level parameters next to adapters given directly: the rules are applied to each
    adapter with ITS OWN configured parameters (reference adapters are built with the class constructors, not the parser)."""
    from cutadapt.adapters import BackAdapter

    V = res["viol"]
    SHORT, LONG = "GGTTCAAG", "CCTGAGGTTCAAGTC"
    fa = os.path.join(wd, "ads.fa")
    clih.write_text(fa, f">short\n{SHORT}\n")
    ins = ["ACGTTGCATG", "TTGACCA", ""]
    reads = []
    for i in ins:
        reads += [i + LONG, i + "CCTGAGGTTGAAGTC", i + "CATGAGGTTCAAGTC" + "TT", i + SHORT, i + SHORT[:5], i + LONG[:9], i + "CCTGTGGTTCAAG", i + SHORT + LONG, i]
    recs = [(f"f{k}", s_, uq(len(s_))) for k, s_ in enumerate(reads)]
    inp, out = os.path.join(wd, "fs.fq"), os.path.join(wd, "fs.out.fq")
    clih.write_text(inp, clih.fastq_text(recs))
    for fe, fo in ((0.0, 8), (0.3, 2)):
        mk_short = lambda: BackAdapter(SHORT, max_errors=fe, min_overlap=fo, name="short")
        mk_long = lambda: BackAdapter(LONG, max_errors=0.1, min_overlap=3, name="long")
        for label, order, ads in (("file first", ["-a", f"file:{fa};e={fe};o={fo}", "-a", f"long={LONG}"], [mk_short(), mk_long()]),
                                  ("file last", ["-a", f"long={LONG}", "-a", f"file:{fa};e={fe};o={fo}"], [mk_long(), mk_short()])):
            for times in (1, 2):
                argv = ["--no-index", "-e", "0.1", "-O", "3", "--times", str(times), "--rename", "{id} {adapter_name}"] + order + ["-o", out, inp]
                r = clih.run_cli(argv)
                res["cli_runs"] += 1
                cfg = dict(argv=[a if not a.startswith("/") else os.path.basename(a) for a in argv], seam="cli-file", times=times)
                if r.exit != 0:
                    V.append(("cli:failed", f"cutadapt failed: {r.exit} {r.exc} {r.errors()[:1]}", cfg))
                    continue
                got = clih.read_records(out)[1]
                for (nm, s_, q), g in zip(recs, got):
                    res["evals"] += 1
                    matches, kept = refpipe.adapter_rounds(ads, s_, times)
                    es, eq = refpipe.apply_action(s_, q, matches, kept, "trim")
                    en = f"{nm} {matches[-1].name if matches else 'no_adapter'}"
                    if matches:
                        res["nontrivial"] += 1
                    if tuple(g) != (en, es, eq):
                        V.append(("cli:file-spec", f"with an adapter file carrying its own parameters ({label}) the applied adapter / trimmed read "
                                  "is not the one the stated rules give for the configured parameters", dict(cfg, read=s_, got=list(g), expected=[en, es, eq])))
                        break


def run(tier):
    R = common.Result(PROP, tier, "exploration")
    sh = shards(tier)
    out = common.pmap(MOD, "run_shard", sh)
    tot = {}
    for r in out:
        for k, v in r.items():
            if isinstance(v, int):
                tot[k] = tot.get(k, 0) + v
        for s in r["samples"]:
            R.sample(s)
        for sig, what, case in r["viol"]:
            R.violation(sig, what, case)
    R.counters = tot
    R.coverage["adapter_lists"] = len(lists(tier))
    R.coverage["menu"] = [f"{t}:{s}" for t, s in MENU]
    R.assumptions = ["each single adapter's own match_to result is taken as given (C01/C02 judge it)", "mask/crop with linked adapters "
                     "are documented as unsupported and not enumerated"]
    return R.finish(tot.get("evals", 0), tot.get("nontrivial", 0),
                    "every ordered list of 1-2 (thorough: + a quarter of all triples) adapters from a 20-entry menu x --times {1,2,3} x "
                    "actions {trim,none,lowercase,mask,retain,crop} x ALL reads over ACGT up to length 6 (7) with position-unique qualities, at "
                    "the AdapterCutter seam (index=False, and the default index=True whenever no index gets built for the list); plus a cli.main pass (with "
                    "--no-index, and without it when no index gets built; --rename {adapter_name}) over all ordered pairs; non-trivial "
                    "= at least one adapter matched (multi_round counts reads with >= 2 rounds)",
                    True)


def replay(path):
    from cutadapt.info import ModificationInfo
    from cutadapt.modifiers import AdapterCutter
    from dnaio import SequenceRecord

    with open(path) as f:
        v = json.load(f)
    print(json.dumps(v, indent=1))
    c = v["case"]
    if "types" not in c or "read" not in c:
        import sys
        return common.replay_by_rerun(sys.modules[__name__], PROP, path)
    specs = list(zip(c["types"], c["adapters"]))
    ads = make(specs)
    act = None if c["action"] == "none" else c["action"]
    cutter = AdapterCutter(ads, times=c["times"], action=act, index=bool(c.get("index", False)))
    r = c["read"]
    rec = SequenceRecord("r", r, uq(len(r)))
    info = ModificationInfo(rec)
    out = cutter(rec, info)
    matches, kept = refpipe.adapter_rounds(ads, r, c["times"])
    es, eq = refpipe.apply_action(r, uq(len(r)), matches, kept, c["action"])
    print("implementation:", out.sequence, out.qualities, [m.adapter.name for m in info.matches])
    print("stated rules:  ", es, eq, [m.name for m in matches])
    return 0 if (out.sequence, out.qualities) == (es, eq) and [m.adapter.name for m in info.matches] == [m.name for m in matches] else 1
