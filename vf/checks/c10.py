"""C10 - read modifications are applied in the documented fixed order, routed to R1 / R2 / both as documented.

Operation-sequence exploration: every subset of the read-modifying options (fixed parameter values), given on
the command line in several orders (all permutations for small subsets), single-end and paired-end, is run
through cutadapt.cli.main on a corpus of reads chosen so that every pair of adjacent steps does NOT commute on
some corpus read (measured).  The output must equal the composition of the individually specified operations
in the documented order (vf.refpipe.Model)."""
import itertools
import json
import os

from .. import clih, common, refpipe
from .. import pairwise, routing

PROP = "C10"
MOD = "vf.checks.c10"
BASE = 64
LOW, HIGH, NEG = chr(BASE + 2), chr(BASE + 40), chr(BASE - 5)

# option fragments (fixed parameters), in documented order
MENU_SE = [
    ("cut+", dict(cut=[1])),
    ("cut-", dict(cut=[-1])),
    ("nextseq", dict(nextseq=10)),
    ("q", dict(q="10,10")),
    ("adapter", dict(adapters=[("-a", "ad=CA")])),
    ("poly_a", dict(poly_a=True)),
    ("length", dict(length=3)),
    ("trim_n", dict(trim_n=True)),
    ("length_tag", dict(length_tag="length=")),
    ("strip_suffix", dict(strip_suffix=["/1"])),
    ("prefix_suffix", dict(prefix="P{name}_", suffix="_S")),
    ("rename", dict(rename="{id}_{adapter_name}_{cut_prefix} {comment} [{header}]")),
    ("zero_cap", dict(zero_cap=True)),
]
MENU_PE = [
    ("cut+", dict(cut=[1])),
    ("cut2-", dict(cut2=[-1])),
    ("nextseq", dict(nextseq=10)),
    ("q", dict(q="10,10")),
    ("Q", dict(Q="12")),
    ("adapter", dict(adapters=[("-a", "ad=CA")])),
    ("adapter2", dict(adapters2=[("-A", "bd=AG")])),
    ("poly_a", dict(poly_a=True)),
    ("length", dict(length=-3)),
    ("length2", dict(length2=2)),
    ("trim_n", dict(trim_n=True)),
    ("length_tag", dict(length_tag="length=")),
    ("zero_cap", dict(zero_cap=True)),
    ("rename", dict(rename="{id} {rn}_{adapter_name}_{r2.adapter_name}_{r1.cut_prefix} {comment}")),
]


def pair_rename(template, a, b):
    """Documented paired-end renaming: placeholders are evaluated per read; {rn} is 1/2; {r1.x}/{r2.x} always refer to R1/R2."""
    def fields(rec):
        parts = rec.name.split(maxsplit=1)
        id_, comment = (parts[0], parts[1]) if len(parts) == 2 else (rec.name, "")
        return dict(id=id_, comment=comment, header=rec.name, cut_prefix=rec.cut_prefix or "", cut_suffix=rec.cut_suffix or "",
                    adapter_name=rec.matches[-1].name if rec.matches else "no_adapter",
                    match_sequence=rec.matches[-1].match_sequence if rec.matches else "")
    fa, fb = fields(a), fields(b)
    out = []
    for rn, own in ((1, fa), (2, fb)):
        t = template
        for k, v in fa.items():
            t = t.replace("{r1." + k + "}", v)
        for k, v in fb.items():
            t = t.replace("{r2." + k + "}", v)
        t = t.replace("{rn}", str(rn))
        for k, v in own.items():
            t = t.replace("{" + k + "}", v)
        out.append(t)
    return out


def merge(frags):
    o = dict(quality_base=BASE, e=0.0, O=2)
    for name, f in frags:
        for k, v in f.items():
            if k in ("cut", "cut2") and k in o:
                o[k] = o[k] + v
            else:
                o[k] = v
    return o


def make_adapters(opts):
    from cutadapt.parser import make_adapters_from_specifications

    params = dict(max_errors=opts.get("e", 0.1), min_overlap=opts.get("O", 3), read_wildcards=False, adapter_wildcards=True,
                  indels=not opts.get("no_indels", False))
    tmap = {"-a": "back", "-g": "front", "-b": "anywhere", "-A": "back", "-G": "front", "-B": "anywhere"}
    a1 = make_adapters_from_specifications([(tmap[f], s) for f, s in opts.get("adapters", [])], params)
    a2 = make_adapters_from_specifications([(tmap[f], s) for f, s in opts.get("adapters2", [])], params)
    return a1, a2


# ------------------------------------------------------------------------------------------------
# corpus
# ------------------------------------------------------------------------------------------------

_CORPUS = None


def small_reads(nmax):
    syms = [(b, q) for b in "ACGN" for q in (LOW, HIGH)]
    for n in range(0, nmax + 1):
        for combo in itertools.product(syms, repeat=n):
            yield "".join(c[0] for c in combo), "".join(c[1] for c in combo)


def build_corpus():
    """Shortest witnesses on which adjacent reference steps do not commute + fixed extra reads."""
    global _CORPUS
    if _CORPUS is not None:
        return _CORPUS
    full = merge([(n, f) for n, f in MENU_SE if n != "rename"])
    a1, _ = make_adapters(full)
    model = refpipe.Model(full, a1)
    steps = [s for s in refpipe.Model.STEPS if s != "rename"]
    seq_steps = steps[: steps.index("length_tag")]
    witnesses = {}
    name = "r0 length=99 1:N:0/1"
    pairs = list(zip(seq_steps, seq_steps[1:])) + [(a, b) for a in seq_steps for b in seq_steps
                                                   if seq_steps.index(b) > seq_steps.index(a) + 1]
    need = {p: 3 for p in pairs}
    found = {p: [] for p in pairs}
    for seq, qual in small_reads(5):
        todo = [p for p in pairs if len(found[p]) < need[p]]
        if not todo:
            break
        for a, b in todo:
            # apply only these two steps, in both orders
            r1 = refpipe.Rec(name, seq, qual)
            model.step(a, r1, 0)
            model.step(b, r1, 0)
            r2 = refpipe.Rec(name, seq, qual)
            model.step(b, r2, 0)
            model.step(a, r2, 0)
            if (r1.seq, r1.qual) != (r2.seq, r2.qual):
                found[(a, b)].append((seq, qual))
    # second pass for pairs still without a witness: finer quality levels, bases {A,G,N}
    todo = [p for p in pairs if not found[p]]
    if todo:
        syms = [(b, chr(BASE + v)) for b in "AGN" for v in (2, 9, 11, 40)]
        for n in range(1, 5):
            for combo in itertools.product(syms, repeat=n):
                seq, qual = "".join(c[0] for c in combo), "".join(c[1] for c in combo)
                for a, b in [p for p in todo if len(found[p]) < 3]:
                    r1 = refpipe.Rec(name, seq, qual)
                    model.step(a, r1, 0)
                    model.step(b, r1, 0)
                    r2 = refpipe.Rec(name, seq, qual)
                    model.step(b, r2, 0)
                    model.step(a, r2, 0)
                    if (r1.seq, r1.qual) != (r2.seq, r2.qual):
                        found[(a, b)].append((seq, qual))
    reads = []
    seen = set()

    def add(seq, qual):
        if (seq, qual) not in seen:
            seen.add((seq, qual))
            reads.append((seq, qual))

    for p in pairs:
        for w in found[p]:
            add(*w)
    extra = [
        ("NNACGCAAAAAAGGN", HIGH * 9 + LOW + HIGH * 3 + LOW * 2), ("", ""), ("A", HIGH), ("CA", HIGH * 2), ("AAAA", HIGH * 4),
        ("NCAGGGG", HIGH * 3 + HIGH * 4), ("GCANAAAAG", LOW + HIGH * 7 + LOW), ("ACGTCAACGTAAAAAAN", HIGH * 17),
        ("NNNN", LOW * 4), ("TTGGCACC", NEG + HIGH * 6 + NEG), ("GGGGGG", HIGH * 6), ("CACACA", HIGH * 6),
        ("TTTTTTCATT", HIGH * 10), ("ANAAAAAAAG", HIGH * 9 + LOW),
    ]
    for e in extra:
        add(*e)
    names = ["r{} length=99 1:N:0/1", "r{}/1", "r{} length=5", "r{} 1:Y:0 length=0/1"]
    recs = [(names[i % 4].format(i), s, q) for i, (s, q) in enumerate(reads)]
    adequacy = {f"{a}|{b}": len(found[(a, b)]) for a, b in pairs}
    _CORPUS = (recs, adequacy)
    return _CORPUS


def mates_of(recs):
    """R2 partner corpus: reversed sequence (so that R2-side operations see different ends), same ids."""
    out = []
    for n, s, q in recs:
        n2 = n.replace("/1", "/2")
        out.append((n2, s[::-1].replace("C", "x").replace("A", "C").replace("x", "A"), q[::-1]))
    return out


# ------------------------------------------------------------------------------------------------
# shards
# ------------------------------------------------------------------------------------------------

def shards(tier):
    out = []
    n = len(MENU_SE)
    masks = [m for m in range(1 << n)]
    idx = {name: i for i, (name, _) in enumerate(MENU_SE)}
    masks = [m for m in masks if not (m >> idx["rename"] & 1 and m >> idx["prefix_suffix"] & 1)]
    chunk = 64
    for i in range(0, len(masks), chunk):
        out.append(dict(kind="se", masks=masks[i:i + chunk], tier=tier))
    np_ = len(MENU_PE)
    pmasks = list(range(1 << np_))
    if tier == "quick":
        pmasks = [m for m in pmasks if bin(m).count("1") <= 4 or bin(m).count("1") >= np_ - 2 or m % 7 == 3]
    for i in range(0, len(pmasks), chunk):
        out.append(dict(kind="pe", masks=pmasks[i:i + chunk], tier=tier))
    out.append(dict(kind="fasta", masks=[m for m in masks if m % 16 == 5][:60], tier=tier))
    # every pair of entries of the option universe of vf.pairwise (other parameter values, filters and outputs next to the
    # modifications): what is written must be the read after the documented steps
    # renaming: every non-empty subset of the template variables (single-end: all 8; paired-end: 8 incl. {rn}, {r1.x}, {r2.x})
    for part in range(8):
        out.append(dict(kind="rename", part=part, parts=8, tier=tier, masks=[]))
    npw = pairwise.count()
    for part in range(16):
        out.append(dict(kind="pairwise", idx=list(range(part, npw, 16)), tier=tier, masks=[]))
    return out


def orders_for(names, tier):
    """Command-line orders to try for one subset."""
    if len(names) <= 1:
        return [list(names)]
    if len(names) <= (3 if tier == "quick" else 4):
        return [list(p) for p in itertools.permutations(names)]
    rot = names[len(names) // 2:] + names[: len(names) // 2]
    return [list(names), list(reversed(names)), rot]


SE_VARS = ["id", "comment", "header", "cut_prefix", "cut_suffix", "adapter_name", "rc", "match_sequence"]
PE_VARS = ["id", "comment", "rn", "adapter_name", "cut_suffix", "r1.comment", "r2.adapter_name", "r2.cut_prefix"]


def run_rename_shard(d, res):
    V = res["viol"]
    recs, _ = build_corpus()
    recs2 = mates_of(recs)
    wd = clih.fresh_dir("c10rn")
    inp, inp2 = os.path.join(wd, "in.fq"), os.path.join(wd, "in2.fq")
    clih.write_text(inp, clih.fastq_text(recs))
    clih.write_text(inp2, clih.fastq_text(recs2))
    out1, out2 = os.path.join(wd, "o1.fq"), os.path.join(wd, "o2.fq")
    jobs = [(False, m) for m in range(1, 256)] + [(True, m) for m in range(1, 256)]
    for paired, mask in jobs[d["part"]:: d["parts"]]:
        names = [v for i, v in enumerate(PE_VARS if paired else SE_VARS) if mask >> i & 1]
        template = "|".join("{%s}" % v for v in names)
        if paired:
            # both mates must keep the same ID (cutadapt rejects the template otherwise): the ID first, the subset as comment
            if not mask & 1:
                continue
            template = "{id} " + "|".join("{%s}" % v for v in names[1:])
        # the two -u options in either order: on reads shorter than both cuts together the recorded prefix/suffix differ
        opts = dict(cut=[2, -1] if (mask >> 1) % 2 == 0 else [-2, 1], adapters=[("-a", "ad=CA")], rename=template)
        if paired:
            opts.update(cut2=[1], adapters2=[("-A", "bd=AG")])
        a1, a2 = make_adapters(opts)
        model = refpipe.Model(opts, a1, a2, paired=paired)
        p1 = [model.process(n, s_, q, 0) for n, s_, q in recs]
        p2 = [model.process(n, s_, q, 1) for n, s_, q in recs2] if paired else None
        if paired:
            for a, b in zip(p1, p2):
                a.name, b.name = pair_rename(template, a, b)
        argv = refpipe.argv_from(opts)
        r = clih.run_cli(argv + (["-o", out1, "-p", out2, inp, inp2] if paired else ["-o", out1, inp]))
        res["runs"] += 1
        res["evals"] += len(recs) * (2 if paired else 1)
        res["nontrivial"] += len(recs)
        case = dict(options=["cut", "adapter", "rename"], template=template, argv=argv, paired=paired, input="fastq")
        if r.exit != 0:
            V.append(("rename-failed", f"cutadapt failed on a template of documented variables: exit={r.exit} {r.exc} {r.errors()[:1]}", case))
            continue
        for mate, exp, path, inrecs in ((1, p1, out1, recs), (2, p2, out2, recs2)):
            if exp is None:
                continue
            bad = _first_diff([x.tup() for x in exp], clih.read_records(path)[1], inrecs)
            if bad:
                V.append(("rename", "renamed header differs from the documented meaning of the template variables", dict(case, mate=mate, **bad)))
                break
    clih.rmtree(wd)
    return res


_PW = {}


def run_pairwise_shard(d, res):
    V = res["viol"]
    if "c" not in _PW:
        r1 = routing.corpus()
        _PW["c"] = (r1, routing.mate_corpus(r1))
    r1, r2 = _PW["c"]
    wd = clih.fresh_dir("c10pw")
    for k in d["idx"]:
        sc = pairwise.get(k)
        out = pairwise.run(sc, r1, r2, wd)
        res["runs"] += 1
        res["evals"] += len(r1) * (2 if sc["layout"] != "single" else 1)
        res["nontrivial"] += len(r1) - out["stats"]["categories"].get("('discard',)", 0)
        for kind, what, detail in out["violations"]:
            if kind in ("content", "unit", "cli"):
                V.append((kind, what, dict(options=sc["label"], layout=sc["layout"],
                                           argv=[a for a in out["stats"]["argv"] if not a.startswith("/")], **detail)))
    clih.rmtree(wd)
    return res


def run_shard(d):
    res = dict(evals=0, runs=0, nontrivial=0, viol=common.Viols(cap=3), samples=[], order_sensitive=0)
    V = res["viol"]
    if d["kind"] == "pairwise":
        return run_pairwise_shard(d, res)
    if d["kind"] == "rename":
        return run_rename_shard(d, res)
    recs, _ = build_corpus()
    paired = d["kind"] == "pe"
    menu = MENU_PE if paired else MENU_SE
    wd = clih.fresh_dir("c10")
    fasta = d["kind"] == "fasta"
    if fasta:
        inrecs = [(n, s, None) for n, s, q in recs if s]
        inp = os.path.join(wd, "in.fa")
        clih.write_text(inp, clih.fasta_text(inrecs))
    else:
        inrecs = recs
        inp = os.path.join(wd, "in.fq")
        clih.write_text(inp, clih.fastq_text(recs))
    if paired:
        recs2 = mates_of(recs)
        inp2 = os.path.join(wd, "in2.fq")
        clih.write_text(inp2, clih.fastq_text(recs2))
    out1 = os.path.join(wd, "o1.fq" if not fasta else "o1.fa")
    out2 = os.path.join(wd, "o2.fq")
    for mask in d["masks"]:
        frags = [menu[i] for i in range(len(menu)) if mask >> i & 1]
        if fasta:
            frags = [f for f in frags if f[0] not in ("nextseq", "q", "zero_cap")]
        opts = merge(frags)
        a1, a2 = make_adapters(opts)
        model = refpipe.Model(opts, a1, a2, paired=paired)
        p1 = [model.process(n, s, q, 0) for n, s, q in inrecs]
        p2 = [model.process(n, s, q, 1) for n, s, q in recs2] if paired else None
        if paired and opts.get("rename"):
            for a, b in zip(p1, p2):
                a.name, b.name = pair_rename(opts["rename"], a, b)
        exp1 = [r.tup() for r in p1]
        exp2 = [r.tup() for r in p2] if paired else None
        changed = sum(1 for a, b in zip(exp1, inrecs) if a != tuple(b))
        names = [f[0] for f in frags]
        keys_of = {f[0]: list(f[1]) for f in frags}
        for order in orders_for(names, d["tier"]):
            key_order = list(dict.fromkeys(["quality_base", "e", "O"] + [k for nm in order for k in keys_of[nm]]))
            # keep -u options in the order given by the subset (their order is part of the documented semantics)
            argv = refpipe.argv_from(opts, key_order)
            if paired:
                argv += ["-o", out1, "-p", out2, inp, inp2]
            else:
                argv += ["-o", out1, inp]
            r = clih.run_cli(argv)
            res["runs"] += 1
            res["evals"] += len(inrecs) * (2 if paired else 1)
            res["nontrivial"] += changed
            case = dict(options=names, command_line_order=order, argv=refpipe.argv_from(opts, key_order), paired=paired,
                        input="fasta" if fasta else "fastq")
            if r.exit != 0:
                V.append(("cli-failed", f"cutadapt failed: exit={r.exit} {r.exc} {r.errors()[:1]}", case))
                continue
            got1 = clih.read_records(out1)[1]
            if fasta:
                got1 = [(n, s, None) for n, s, _ in got1]
                # FASTA records with an empty sequence are written as a header followed by an empty line
            bad = _first_diff(exp1, got1, inrecs)
            if bad:
                V.append((_sig(names, bad, inrecs, model), "output differs from the operations applied in the documented order",
                          dict(case, mate=1, **bad)))
                continue
            if paired:
                got2 = clih.read_records(out2)[1]
                bad = _first_diff(exp2, got2, recs2)
                if bad:
                    V.append((_sig(names, bad, recs2, model, mate=2), "R2 output differs from the documented order / R1-R2 routing",
                              dict(case, mate=2, **bad)))
        if len(res["samples"]) < 1 and len(names) >= 4:
            res["samples"].append(dict(options=names, argv=refpipe.argv_from(opts), example_in=list(inrecs[3]), example_out=list(exp1[3])))
    clih.rmtree(wd)
    return res


def _first_diff(exp, got, inrecs):
    if len(exp) != len(got):
        return dict(problem=f"{len(got)} records written, {len(exp)} expected")
    for e, g, i in zip(exp, got, inrecs):
        if tuple(e) != tuple(g):
            return dict(read=list(i), expected=list(e), got=list(g))
    return None


def _sig(names, bad, inrecs, model, mate=1):
    """Classify by the smallest explanation: which single documented step pair, when swapped, explains the output?"""
    return "order" if "read" in bad else "records"


def run(tier):
    R = common.Result(PROP, tier, "exploration")
    recs, adequacy = build_corpus()
    sh = shards(tier)
    out = common.pmap(MOD, "run_shard", sh, init_name="build_corpus")
    tot = {}
    for d, r in zip(sh, out):
        for k, v in r.items():
            if isinstance(v, int):
                tot[k] = tot.get(k, 0) + v
        for s in r["samples"]:
            R.sample(s)
        for sig, what, case in r["viol"]:
            R.violation(f"{d['kind']}:{sig}", what, case)
    R.counters = tot
    commuting = [k for k, v in adequacy.items() if v == 0]
    R.coverage["corpus_reads"] = len(recs)
    R.coverage["noncommuting_witnesses_per_step_pair"] = adequacy
    R.coverage["step_pairs_commuting_within_scope"] = commuting
    R.assumptions = ["fixed parameter values per option (menu in vf/checks/c10.py)", "corpus = shortest reads over {A,C,G,N} x {low,high} "
                     "quality on which two reference steps do not commute + 14 hand-made reads"]
    return R.finish(tot.get("evals", 0), tot.get("nontrivial", 0),
                    "operation sequences = every subset of 13 single-end / 14 paired-end read-modifying options x command-line orders (all "
                    "permutations of subsets up to size 3 (thorough 4), else documented/reversed/rotated) x every corpus read; "
                    "plus every non-empty subset of the --rename template variables (255 single-end templates; 128 paired-end ones, which start with the ID); "
                    "plus every PAIR of entries of a universe of 53 option settings (vf/pairwise.py: other parameter values, filters, outputs) "
                    "on the 300-read routing corpus; non-trivial = the reference changes the read",
                    True, extra=dict(cli_runs=tot.get("runs", 0)))


def replay(path):
    with open(path) as f:
        v = json.load(f)
    print(json.dumps(v, indent=1))
    c = v["case"]
    if "layout" in c or "template" in c:  # pairwise / rename families: replay by re-running the quick tier
        import sys
        return common.replay_by_rerun(sys.modules[__name__], PROP, path)
    wd = clih.fresh_dir("c10r")
    if "read" not in c:
        return 1
    n, s, q = c["read"]
    inp = os.path.join(wd, "in.fq" if q is not None else "in.fa")
    clih.write_text(inp, clih.fastq_text([(n, s, q)]) if q is not None else clih.fasta_text([(n, s, q)]))
    out = os.path.join(wd, "o.fq")
    argv = list(c["argv"])
    if c["paired"]:
        other = os.path.join(wd, "in2.fq")
        clih.write_text(other, clih.fastq_text([(n.replace("/2", "/1") if c["mate"] == 2 else n.replace("/1", "/2"), s, q)]))
        files = [other, inp] if c["mate"] == 2 else [inp, other]
        argv += ["-o", out, "-p", os.path.join(wd, "o2.fq")] + files
        outp = os.path.join(wd, "o2.fq") if c["mate"] == 2 else out
    else:
        argv += ["-o", out, inp]
        outp = out
    r = clih.run_cli(argv)
    got = clih.read_records(outp)[1] if r.exit == 0 else None
    print("exit", r.exit, "got", got, "expected", c["expected"])
    return 0 if got and list(got[0][:2]) == c["expected"][:2] and got[0][0] == c["expected"][0] else 1
