"""C11 - filters use the documented criteria, in the documented order, with one destination per read.

Every subset of the seven filters x the discard/untrimmed alternatives x redirect files x boundary thresholds,
single- and paired-end, through cutadapt.cli.main on a corpus realising every vector of predicate outcomes;
the destination of every read is compared with the documented filter chain (vf.routing.Router)."""
import itertools
import json
import os

from .. import clih, common, pairwise, routing

PROP = "C11"
MOD = "vf.checks.c11"

BASE_THR = dict(m="5", M="10", max_n=2, max_ee=0.75, max_aer=0.09, discard_casava=True)
ALT_THR = [dict(m="4"), dict(m="6"), dict(M="11"), dict(M="9"), dict(max_n=0.25), dict(max_n=1), dict(max_n=3), dict(max_n=0),
           dict(max_ee=1.0005), dict(max_ee=0.0), dict(max_ee=0.05), dict(max_aer=0.13), dict(max_aer=0.05)]
FILTER_KEYS = ["m", "M", "max_n", "max_ee", "max_aer", "discard_casava"]
FINALS = [None, "discard_trimmed", "discard_untrimmed", "untrimmed_output"]


def scenarios(tier):
    S = []
    for mask in range(1 << len(FILTER_KEYS)):
        keys = [k for i, k in enumerate(FILTER_KEYS) if mask >> i & 1]
        for final in FINALS:
            redirs = [(False, False)]
            if "m" in keys or "M" in keys:
                redirs = [(a, b) for a in ((False, True) if "m" in keys else (False,)) for b in ((False, True) if "M" in keys else (False,))]
            for ts, tl in redirs:
                S.append(dict(keys=keys, final=final, ts=ts, tl=tl, alt=None, layout="single", pf=None, sides="both"))
    # boundary thresholds, one at a time, within the full chain and alone
    for alt in ALT_THR:
        k = next(iter(alt))
        for keys in ([k], FILTER_KEYS):
            S.append(dict(keys=keys, final="untrimmed_output", ts=(k == "m"), tl=(k == "M"), alt=alt, layout="single", pf=None, sides="both"))
    # paired-end
    pe = []
    masks = range(1 << len(FILTER_KEYS))
    for mask in masks:
        keys = [k for i, k in enumerate(FILTER_KEYS) if mask >> i & 1]
        if tier == "quick" and not (len(keys) <= 2 or len(keys) >= 5):
            continue
        for final in FINALS:
            for pf in (None, "any", "both", "first"):
                for sides in ("both", "r1", "r2"):
                    if tier == "quick" and sides != "both" and final is None and len(keys) > 1:
                        continue
                    pe.append(dict(keys=keys, final=final, ts="m" in keys, tl=False, alt=None, layout="paired", pf=pf, sides=sides))
    for alt in (dict(m="5:3"), dict(m="5:"), dict(m=":3"), dict(M="10:8"), dict(M=":8"), dict(M="10:")):
        k = next(iter(alt))
        for pf in (None, "both", "first"):
            pe.append(dict(keys=[k], final=None, ts=(k == "m"), tl=(k == "M"), alt=alt, layout="paired", pf=pf, sides="both"))
            pe.append(dict(keys=FILTER_KEYS, final="discard_untrimmed", ts=False, tl=False, alt=alt, layout="interleaved", pf=pf, sides="r1"))
    for side in ("info_file", "rest_file", "wildcard_file"):
        for layout in ("single", "paired"):
            for final in (None, "untrimmed_output"):
                pe.append(dict(keys=["m", "max_n"], final=final, ts=True, tl=False, alt=None, layout=layout, pf=None, sides="both", side=side))
    # every pair of entries of the option universe of vf.pairwise (parameter plumbing between unrelated options)
    pw = [dict(pw=k, label=pairwise.get(k)["label"], layout=pairwise.get(k)["layout"], keys=[], final=None, ts=False, tl=False, alt=None,
               pf=None, sides="both") for k in range(pairwise.count())]
    # --max-n as a fraction, exactly at the threshold: every (length <= 100, N count) whose quotient is a decimal with <= 3 places
    bd = [dict(kind="maxn-boundary", part=k, parts=4, layout="single", keys=["max_n"], final=None, ts=False, tl=False, alt=None, pf=None,
               sides="both") for k in range(4)]
    return S + pe + pw + bd


def shards(tier):
    S = scenarios(tier)
    n = 24
    return [dict(tier=tier, idx=list(range(i, len(S), n))) for i in range(n)]


def opts_of(sc):
    if "pw" in sc:
        p = pairwise.get(sc["pw"])
        return dict(p["opts"]), dict(p["outs"])
    o = dict(e=0.1, O=5)
    thr = dict(BASE_THR)
    if sc["alt"]:
        thr.update(sc["alt"])
    for k in sc["keys"]:
        o[k] = thr[k]
    if sc["sides"] in ("both", "r1"):
        o["adapters"] = [("-a", f"ad={routing.AD1}")]
    if sc["layout"] != "single" and sc["sides"] in ("both", "r2"):
        o["adapters2"] = [("-A", f"bd={routing.AD2}")]
    if sc["final"] in ("discard_trimmed", "discard_untrimmed"):
        o[sc["final"]] = True
    if sc["pf"]:
        o["pair_filter"] = sc["pf"]
    outs = dict(too_short_output=sc["ts"], too_long_output=sc["tl"], untrimmed_output=sc["final"] == "untrimmed_output")
    if sc.get("side"):
        outs[sc["side"]] = True
    return o, outs


_C = {}


def run_shard(d):
    S = scenarios(d["tier"])
    if "c" not in _C:
        r1 = routing.corpus()
        _C["c"] = (r1, routing.mate_corpus(r1))
    r1, r2 = _C["c"]
    wd = clih.fresh_dir("c11")
    res = dict(evals=0, runs=0, nontrivial=0, disagreeing=0, viol=common.Viols(cap=3), samples=[], cats=set())
    fwd = (r1, r2)
    for i in d["idx"]:
        if S[i].get("kind") == "maxn-boundary":
            _maxn_boundary(S[i], wd, res)
            continue
        sc = dict(S[i], reversed_corpus=(i % 2 == 1))
        # every other scenario reads the corpus back to front (the reference judges each read on its own)
        r1, r2 = (fwd[0][::-1], fwd[1][::-1]) if sc["reversed_corpus"] else fwd
        o, outs = opts_of(sc)
        out = routing.run_scenario(o, outs, sc["layout"], r1, r2 if sc["layout"] != "single" else None, wd, want_json=False)
        res["runs"] += 1
        res["evals"] += len(r1)
        res["nontrivial"] += out["stats"]["multi_filter_reads"]
        res["disagreeing"] += out["stats"]["disagreeing_pairs"]
        res["cats"] |= set(out["stats"]["categories"])
        for kind, what, detail in out["violations"]:
            if kind in ("content", "unit"):
                continue  # what the read looks like is judged by C03/C09/C10; here: which destination it reaches
            res["viol"].append((f"{'pe' if sc['layout'] != 'single' else 'se'}:{kind}", what,
                                dict(scenario={k: v for k, v in sc.items()}, argv=[a for a in out["stats"]["argv"] if not a.startswith("/")], **detail)))
        if not res["samples"] and len(sc["keys"]) >= 3:
            res["samples"].append(dict(scenario=sc, destinations=out["stats"]["categories"]))
    res["cats"] = sorted(res["cats"])
    clih.rmtree(wd)
    return res


def _maxn_boundary(sc, wd, res):
    """'more N's than --max-n, a value below 1 being a fraction of the read length': at the threshold exactly, one N below and
    one N above it, for every decimal threshold with at most three places that some (length, count) pair meets exactly."""
    from fractions import Fraction

    from cutadapt.info import ModificationInfo
    from cutadapt.predicates import TooManyN
    from dnaio import SequenceRecord

    V = res["viol"]
    cases = []
    for L in range(1, 101):
        for n in range(1, L):
            f = Fraction(n, L)
            if (f * 1000).denominator == 1:
                cases.append((L, n, str(float(f))))
    cases = cases[sc["part"]:: sc["parts"]]
    cli_recs, cli_expect = [], {}
    by_cut = {}
    for L, n, cut in cases:
        by_cut.setdefault(cut, []).append((L, n))
        pred = TooManyN(float(cut))
        for k in (n - 1, n, n + 1):
            if k > L:
                continue
            seq = "N" * k + "A" * (L - k)
            rec = SequenceRecord("r", seq, "I" * L)
            got = bool(pred.test(rec, ModificationInfo(rec)))
            exp = Fraction(k, L) > Fraction(cut)
            res["evals"] += 1
            res["nontrivial"] += 1 if k == n else 0
            if got != exp:
                V.append(("se:maxn-boundary", f"--max-n {cut}: a read of length {L} with {k} N is {'discarded' if got else 'kept'}, the "
                          f"stated criterion ({k}/{L} > {cut}) says {'discard' if exp else 'keep'}", dict(cutoff=cut, length=L, n_count=k)))
    # command-line seam for the thresholds that occur most often
    common_cuts = sorted(by_cut, key=lambda c: -len(by_cut[c]))[:6]
    for cut in common_cuts:
        recs = []
        for j, (L, n) in enumerate(by_cut[cut]):
            for k in (n - 1, n, n + 1):
                if k <= L:
                    recs.append((f"b{j}_{L}_{k}", "N" * k + "A" * (L - k), "I" * L))
        inp, out = os.path.join(wd, "bd.fq"), os.path.join(wd, "bd.out.fq")
        clih.write_text(inp, clih.fastq_text(recs))
        r = clih.run_cli(["--max-n", cut, "-o", out, inp])
        res["runs"] += 1
        if r.exit != 0:
            V.append(("se:cli", f"cutadapt failed: {r.exit} {r.exc} {r.errors()[:1]}", dict(cutoff=cut)))
            continue
        kept = {x[0] for x in clih.read_records(out)[1]}
        for nm, seq, _ in recs:
            L, k = len(seq), seq.count("N")
            res["evals"] += 1
            exp_keep = not (Fraction(k, L) > Fraction(cut))
            if (nm in kept) != exp_keep:
                V.append(("se:maxn-boundary", f"cutadapt --max-n {cut}: a read of length {L} with {k} N is {'kept' if nm in kept else 'discarded'}",
                          dict(cutoff=cut, length=L, n_count=k, seam="cli")))
                break


def run(tier):
    R = common.Result(PROP, tier, "exploration")
    sh = shards(tier)
    out = common.pmap(MOD, "run_shard", sh)
    tot = {}
    cats = set()
    for r in out:
        for k, v in r.items():
            if isinstance(v, int):
                tot[k] = tot.get(k, 0) + v
        cats |= set(r["cats"])
        for s in r["samples"]:
            R.sample(s)
        for sig, what, case in r["viol"]:
            R.violation(sig, what, case)
    R.counters = tot
    R.coverage["destination_categories_reached"] = sorted(cats)
    R.coverage["scenarios"] = len(scenarios(tier))
    R.assumptions = ["read modifications themselves are judged by C10/C13/C14; adapters by C01/C02", "thresholds chosen away from "
                     "floating-point ties except the exact single-value boundaries"]
    return R.finish(tot.get("evals", 0), tot.get("nontrivial", 0),
                    "scenarios = every PAIR of entries of a universe of 53 option settings (vf/pairwise.py) on top of one adapter per read; "
                    "every subset of {-m,-M,--max-n,--max-ee,--max-aer,--discard-casava} x {none, --discard-trimmed, "
                    "--discard-untrimmed, --untrimmed-output} x redirect files x 13 boundary thresholds (single-end); paired-end: x "
                    "--pair-filter {unset,any,both,first} x adapters on {both, R1, R2} x length specs L1:L2, L1:, :L2; corpus of 576 reads "
                    "realising every combination of (trimmed length class, N count, expected-error class, CASAVA flag, adapter present); "
                    "non-trivial = at least two filters apply to the read (order matters)",
                    True)


def replay(path):
    with open(path) as f:
        v = json.load(f)
    print(json.dumps(v, indent=1)[:3000])
    c = v["case"]
    if "scenario" not in c:
        import sys
        return common.replay_by_rerun(sys.modules[__name__], PROP, path)
    sc = c["scenario"]
    o, outs = opts_of(sc)
    r1 = routing.corpus()
    r2 = routing.mate_corpus(r1)
    if sc.get("reversed_corpus"):
        r1, r2 = r1[::-1], r2[::-1]
    wd = clih.fresh_dir("c11r")
    out = routing.run_scenario(o, outs, sc["layout"], r1, r2 if sc["layout"] != "single" else None, wd, want_json=False)
    print("violations on replay:", out["violations"][:3])
    return 1 if out["violations"] else 0
