"""C12 - broken input makes the run fail visibly; it never hangs or loses reads silently.

Fault enumeration (every truncation offset of a plain and of a gzip FASTQ file, single-record
corruptions at first/middle/last record, paired-end faults) x execution mode: one core in process,
several cores under the virtual scheduler with every schedule up to a deviation bound, both pipe
capacities; plus real OS processes with a time-out as a conformance pass."""
import gzip
import json
import os
import subprocess
import zlib

from .. import bigdata, clih, common, explore, mcharness, vmp

PROP = "C12"
MOD = "vf.checks.c12"

ADAPTER = "AAAAGGGG"


def base_records(n=6):
    seqs = ["ACGTACGTAC" + ADAPTER + "TT", "ACGTAC", "GGTTGGTTGGTT" + ADAPTER[:5], "TGCATGCATGCATGCA", "NNACGT" + ADAPTER, "TTGGCCAATT",
            "CCCCCCCCAAAAGG", "GATTACA"]
    return [(f"r{i}", s, "".join("I5?"[(i + j) % 3] for j in range(len(s)))) for i, s in enumerate(seqs[:n])]


def r2_records(n=6):
    seqs = ["TTTTACGT", "GGGGGGGGGGGG", "ACGT", "CATGCATGCATG", "ACGTACGTACGTAC", "NNNNACGT", "GATTACAGATTACA", "CC"]
    return [(f"r{i}", s, "I" * len(s)) for i, s in enumerate(seqs[:n])]


def good_prefix_records(text):
    """Records of the longest well-formed record prefix of a (possibly damaged) FASTQ text, and whether the whole text is
    well-formed."""
    if isinstance(text, bytes):
        try:
            text = text.decode("ascii")
        except UnicodeDecodeError:
            # keep the part before the first non-ASCII byte
            good = text.split(bytes([next(b for b in text if b > 127)]))[0].decode("ascii")
            recs, _ = good_prefix_records(good)
            # the record containing the bad byte is not good: drop a possibly complete-looking tail
            return recs[:-1] if recs and not good.endswith("\n") else recs, False
    try:
        return clih.parse_fastq(text), True
    except clih.Malformed:
        pass
    lines = text.split("\n")
    recs = []
    i = 0
    while i + 4 <= len(lines):
        chunk = "\n".join(lines[i:i + 4]) + "\n"
        try:
            r = clih.parse_fastq(chunk)
        except clih.Malformed:
            break
        # a record is only complete if its last line was terminated or it is the very end
        if i + 4 == len(lines):
            break
        recs.extend(r)
        i += 4
    return recs, False


# ------------------------------------------------------------------------------------------------
# fault list
# ------------------------------------------------------------------------------------------------

def faults(tier):
    F = []
    recs = base_records()
    text = clih.fastq_text(recs).encode()
    step = 1
    for off in range(0, len(text), step):
        F.append(dict(kind="trunc-plain", off=off, files={"in.fq": text[:off]}))
    gz = gzip.compress(text, compresslevel=6, mtime=0)
    for off in range(0, len(gz), step):
        F.append(dict(kind="trunc-gz", off=off, files={"in.fq.gz": gz[:off]}))
    # a larger gzip file: the decompressor gets past format detection, the error surfaces while chunks are being read
    import random

    rnd = random.Random(12)
    big = [(f"b{i}", "".join(rnd.choice("ACGT") for _ in range(50)) + (ADAPTER if i % 3 == 0 else ""), None) for i in range(200)]
    big = [(n, s_, "".join(rnd.choice("ABCDEFGHI") for _ in range(len(s_)))) for n, s_, _ in big]
    bigz = gzip.compress(clih.fastq_text(big).encode(), compresslevel=6, mtime=0)
    for off in (len(bigz) // 3, len(bigz) // 2, (len(bigz) * 9) // 10, len(bigz) - 9, len(bigz) - 3, len(bigz)):
        F.append(dict(kind="trunc-gz-large", off=off, files={"in.fq.gz": bigz[:off]}, buf=3000))
    # single-record corruptions at first / middle / last record
    for pos in (0, len(recs) // 2, len(recs) - 1):
        def damaged(fn):
            lines = clih.fastq_text(recs).split("\n")
            fn(lines, 4 * pos)
            return "\n".join(lines).encode("latin-1")

        def drop_q(l, i):
            l[i + 3] = l[i + 3][:-1]

        def extra_q(l, i):
            l[i + 3] = l[i + 3] + "I"

        def drop_line(l, i):
            del l[i + 1]

        def blank(l, i):
            l.insert(i + 2, "")

        def plus(l, i):
            l[i + 2] = "-"

        def at(l, i):
            l[i] = l[i][1:]

        def nonascii_s(l, i):
            l[i + 1] = l[i + 1][:2] + "\xe9" + l[i + 1][3:]

        def nonascii_q(l, i):
            l[i + 3] = l[i + 3][:1] + "\xe9" + l[i + 3][2:]

        def header2(l, i):
            l[i + 2] = "+other"

        for name, fn in (("drop-quality-char", drop_q), ("extra-quality-char", extra_q), ("drop-sequence-line", drop_line),
                         ("blank-line", blank), ("plus-damaged", plus), ("at-damaged", at), ("nonascii-sequence", nonascii_s),
                         ("nonascii-quality", nonascii_q), ("second-header-differs", header2)):
            F.append(dict(kind="corrupt-" + name, off=pos, files={"in.fq": damaged(fn)}, malformed=True))
    # a quality character below the valid range ('!'): cutadapt looks at quality values only where it computes with them, so the
    # run uses --max-ee (there the bad character must be reported whatever its position in the line)
    for pos in (0, len(recs) // 2):
        for col in (0, 1, 2, 3, 4, 5, 9):
            lines = clih.fastq_text(recs).split("\n")
            q = lines[4 * pos + 3]
            if col < len(q):
                lines[4 * pos + 3] = q[:col] + "\x1f" + q[col + 1:]
                F.append(dict(kind="corrupt-quality-below-range", off=pos * 100 + col, files={"in.fq": "\n".join(lines).encode("latin-1")},
                              malformed=True, extra_argv=["--max-ee", "50"]))
    # paired-end faults
    r1, r2 = base_records(), r2_records()
    t1, t2 = clih.fastq_text(r1).encode(), clih.fastq_text(r2).encode()

    def paired(kind, a, b, malformed=True, interleaved=False):
        if interleaved:
            F.append(dict(kind=kind, off=0, files={"il.fq": a}, paired="interleaved", malformed=malformed))
        else:
            F.append(dict(kind=kind, off=0, files={"in1.fq": a, "in2.fq": b}, paired="two", malformed=malformed))

    paired("paired-ok", t1, t2, malformed=False)
    paired("paired-r2-short-by-one", t1, clih.fastq_text(r2[:-1]).encode())
    paired("paired-r2-short-by-three", t1, clih.fastq_text(r2[:3]).encode())
    paired("paired-r1-short-by-one", clih.fastq_text(r1[:-1]).encode(), t2)
    paired("paired-r2-missing-middle", t1, clih.fastq_text(r2[:2] + r2[3:]).encode())
    paired("paired-r2-empty", t1, b"")
    paired("paired-r1-empty", b"", t2)
    paired("paired-name-mismatch-first", t1, clih.fastq_text([("zz", r2[0][1], r2[0][2])] + r2[1:]).encode())
    paired("paired-name-mismatch-middle", t1, clih.fastq_text(r2[:3] + [("zz", r2[3][1], r2[3][2])] + r2[4:]).encode())
    paired("paired-name-mismatch-last", t1, clih.fastq_text(r2[:-1] + [("zz", r2[-1][1], r2[-1][2])]).encode())
    paired("paired-r2-truncated-in-record", t1, t2[: len(t2) - 7])
    il = clih.fastq_text([x for p in zip(r1, r2) for x in p]).encode()
    paired("interleaved-ok", il, None, malformed=False, interleaved=True)
    paired("interleaved-odd", clih.fastq_text([x for p in zip(r1, r2) for x in p][:-1]).encode(), None, interleaved=True)
    paired("interleaved-name-mismatch", clih.fastq_text([x for p in zip(r1, [("zz",) + r2[0][1:]] + r2[1:]) for x in p]).encode(),
           None, interleaved=True)
    if tier == "thorough":
        # other containers: truncated bz2 / xz streams (the decompressors fail with other exception types than gzip)
        import bz2
        import lzma

        for name, blob in (("in.fq.bz2", bz2.compress(text)), ("in.fq.xz", lzma.compress(text))):
            for off in sorted(set(list(range(1, len(blob), 7)) + [len(blob) - 1, len(blob) - 2])):
                F.append(dict(kind="trunc-" + name.split(".")[-1], off=off, files={name: blob[:off]}, malformed=(off != 0)))
        # interleaved input cut at every 5th byte
        for off in range(0, len(il), 5):
            F.append(dict(kind="trunc-interleaved", off=off, files={"il.fq": il[:off]}, paired="interleaved", malformed=None))
        # truncation of both paired files at every offset of R2
        for off in range(0, len(t2), 3):
            # R2 cut anywhere before its end: mates are missing (cut at a record boundary) or the last record is broken
            F.append(dict(kind="paired-trunc-r2", off=off, files={"in1.fq": t1, "in2.fq": t2[:off]}, paired="two", malformed=True))
    for i, f in enumerate(F):
        f["id"] = i
    return F


def verdict(f):
    """Is the damaged input well-formed, and which records are its good prefix?  (single-end faults)"""
    if f.get("kind") == "trunc-interleaved":
        data = next(iter(f["files"].values()))
        recs, ok = good_prefix_records(data)
        return (ok and len(recs) % 2 == 0), None
    if f.get("kind") == "corrupt-quality-below-range":
        return False, base_records()[: f["off"] // 100]
    if f.get("kind") in ("trunc-bz2", "trunc-xz"):
        return (not f["malformed"]), ([] if not f["malformed"] else None)
    if "malformed" in f and f.get("paired"):
        return (not f["malformed"]), None
    name, data = next(iter(f["files"].items()))
    if name.endswith(".gz"):
        if data == b"":
            return True, []
        try:
            text = gzip.decompress(data)
            whole = True
        except (EOFError, OSError, zlib.error):
            whole = False
            d = zlib.decompressobj(31)
            try:
                text = d.decompress(data)
            except zlib.error:
                text = b""
        recs, ok = good_prefix_records(text)
        return (whole and ok), recs
    recs, ok = good_prefix_records(data)
    if "malformed" in f and f["malformed"] and ok:
        raise common.HarnessError(f"fault {f['kind']} was meant to be malformed but the strict reader accepts it")
    return ok, recs


# ------------------------------------------------------------------------------------------------

_F = {}
BUF = 130  # splits the 6-record input into 3 chunks


def _faults(tier):
    if tier not in _F:
        _F[tier] = faults(tier)
    return _F[tier]


def setup_fault(f, wd):
    ind = os.path.join(wd, "in")
    os.makedirs(ind, exist_ok=True)
    mcharness.clear_dir(ind)
    paths = []
    for n, data in f["files"].items():
        p = os.path.join(ind, n)
        with open(p, "wb") as fh:
            fh.write(data)
        paths.append(p)
    return paths


def argv_for(f, paths, outd, cores):
    a = ["-j", str(cores), "--buffer-size", str(f.get("buf", BUF)), "-a", f"ad={ADAPTER}"] + list(f.get("extra_argv", []))
    if f.get("paired") == "two":
        a += ["-A", "bd=TTTTCCCC", "-o", os.path.join(outd, "o1.fq"), "-p", os.path.join(outd, "o2.fq")]
    elif f.get("paired") == "interleaved":
        a += ["--interleaved", "-A", "bd=TTTTCCCC", "-o", os.path.join(outd, "o.fq")]
    else:
        a += ["-o", os.path.join(outd, "o.fq")]
    return a + paths


def expected_full_output(f, wd, good):
    """Output of processing the good record prefix with one core (cutadapt itself is the processing oracle here)."""
    if good is None:
        return None
    d = os.path.join(wd, "exp")
    os.makedirs(d, exist_ok=True)
    mcharness.clear_dir(d)
    p = os.path.join(d, "good.fq")
    clih.write_text(p, clih.fastq_text(good))
    r = clih.run_cli(["-a", f"ad={ADAPTER}", "-o", os.path.join(d, "o.fq"), p])
    if r.exit != 0:
        raise common.HarnessError(f"processing of the well-formed prefix failed: {r.exit} {r.exc} {r.errors()}")
    return clih.read_records(os.path.join(d, "o.fq"))[1]


def judge(f, wellformed, expected, s, mode):
    """s: RunSummary-like (exit, exc, errors, outputs, deadlock, horizon). Returns failure text or None."""
    if getattr(s, "deadlock", None) is not None:
        return f"hang: no process can make progress ({s.deadlock})"
    if getattr(s, "horizon", False):
        return "horizon of scheduling points hit"
    if s.exit == "EXC":
        # an uncaught exception ends the program with a traceback and a non-zero status: visible failure
        if wellformed:
            return f"well-formed input but uncaught exception: {s.exc}"
        s.exit, s.errors = 1, [str(s.exc)]
    if wellformed:
        if s.exit != 0:
            return f"well-formed input but exit status {s.exit}: {s.errors[:1]}"
    else:
        if s.exit == 0:
            return "malformed/truncated input but exit status 0"
        if not s.errors:
            return f"exit status {s.exit} without an error message"
    # outputs must parse completely and be a record prefix of the processed good prefix
    for n, data in s.outputs.items():
        try:
            recs = clih.parse_fastq(data) if data else []
        except clih.Malformed as e:
            return f"output file {n} does not parse completely: {e}"
        if expected is not None and n == "o.fq":
            if recs != expected[: len(recs)]:
                return f"output {n} is not a prefix of the correctly processed input records (got {len(recs)} records)"
            if wellformed and len(recs) != len(expected):
                return f"exit status 0 but only {len(recs)} of {len(expected)} records were written"
    if f.get("paired") == "two" and set(s.outputs) >= {"o1.fq", "o2.fq"}:
        a, b = clih.parse_fastq(s.outputs["o1.fq"]), clih.parse_fastq(s.outputs["o2.fq"])
        if wellformed and [x[0] for x in a] != [x[0] for x in b]:
            return "paired outputs out of sync"
        if wellformed and len(a) != len(base_records()):
            return f"exit status 0 but only {len(a)} pairs written"
    return None


def run_task(task):
    """task = (tier, fault id, what) with what in {'serial', ('virtual', workers, capacity, bound), 'free'}"""
    tier, fid, what = task
    f = _faults(tier)[fid]
    wd = os.path.join(common.workdir(), "c12")
    os.makedirs(wd, exist_ok=True)
    outd = os.path.join(wd, "out")
    os.makedirs(outd, exist_ok=True)
    paths = setup_fault(f, wd)
    wellformed, good = verdict(f)
    expected = expected_full_output(f, wd, good)
    res = dict(task=task, kind=f["kind"], off=f["off"], wellformed=wellformed, executions=0, failures=[], states=set(),
               transitions=0, met_by=set(), outcomes=set(), cap=None)
    if what == "serial":
        s = mcharness.run_serial(argv_for(f, paths, outd, 1), outd, json_name="none")
        res["executions"] = 1
        res["outcomes"].add((s.exit, bool(s.errors)))
        fail = judge(f, wellformed, expected, s, "serial")
        if fail:
            res["failures"].append(((), fail))
    elif what == "free":
        mcharness.clear_dir(outd)
        try:
            r = common.run_group([common.PY, "-m", "cutadapt"] + argv_for(f, paths, outd, 2), timeout=30)
            s = mcharness.RunSummary()
            s.exit = r.returncode
            s.exc = None
            err = r.stderr.decode(errors="replace")
            s.errors = [err.strip()[-300:]] if err.strip() else []
            s.outputs = mcharness.collect_outputs(outd)
            s.deadlock = None
            s.horizon = False
            fail = judge(f, wellformed, expected, s, "free")
        except subprocess.TimeoutExpired:
            fail = "real multi-core process did not terminate within 30 s"
        res["executions"] = 1
        if fail:
            res["failures"].append(((), "real OS processes: " + fail))
    else:
        _, workers, capacity, bound = what
        argv = argv_for(f, paths, outd, workers)

        def run_exec(prefix):
            s = mcharness.run_virtual(argv, outd, prefix=prefix, bytes_capacity=capacity, json_name="none")
            if s.divergence:
                raise vmp.HarnessNondeterminism(f"replay divergence: {s.divergence}")
            # which process met the fault: the one whose pipe carried -2 first
            for name, st, nops in s.procs:
                pass
            res["outcomes"].add((s.exit, bool(s.errors)))
            return s.points, (s.exit, bool(s.errors), s.deadlock is not None), judge(f, wellformed, expected, s, "virtual")

        r = explore.explore(run_exec, "D", bound=bound)
        res["executions"] = r.executions
        res["states"] = r.states
        res["transitions"] = r.transitions
        res["cap"] = r.cap_hit
        for prefix, fail, choices in r.failures[:3]:
            res["failures"].append((tuple(choices), fail))
    return res


BIG = ["paired-r2-cut-at-34-percent", "single-bad-record-xz-output", "single-gz-cut-at-60-percent"]


def run_big(name):
    """Faults in inputs of realistic size with the DEFAULT --buffer-size and real processes (pipes that fill, more than one chunk per
    worker, an external compressor on the output side): the run must end with a non-zero status and a message."""
    wd = clih.fresh_dir("c12big-" + name)
    i1, i2 = os.path.join(wd, "r1.fq"), os.path.join(wd, "r2.fq")
    if name.startswith("paired"):
        bigdata.paired(i1, i2, n=30000)
        data = open(i2, "rb").read()
        with open(i2, "wb") as fh:
            fh.write(data[: int(len(data) * 0.34) + 7])
        argv = ["-j", "3", "-a", f"a1={bigdata.TRUSEQ1}", "-A", f"a2={bigdata.TRUSEQ2}", "-o", os.path.join(wd, "o1.fq"), "-p",
                os.path.join(wd, "o2.fq"), i1, i2]
    elif name.startswith("single-bad"):
        bigdata.paired(i1, i2, n=60000)
        lines = open(i1).read().split("\n")
        k = (len(lines) // 4 // 4) * 4 + 3
        lines[k] = lines[k][:-1]
        clih.write_text(i1, "\n".join(lines))
        argv = ["-j", "3", "-a", f"a1={bigdata.TRUSEQ1}", "-o", os.path.join(wd, "out.fastq.xz"), i1]
    else:
        bigdata.paired(i1, i2, n=30000)
        gz = gzip.compress(open(i1, "rb").read(), compresslevel=1)
        p = os.path.join(wd, "r1.fq.gz")
        with open(p, "wb") as fh:
            fh.write(gz[: int(len(gz) * 0.6)])
        argv = ["-j", "3", "-a", f"a1={bigdata.TRUSEQ1}", "-o", os.path.join(wd, "out.fq"), p]
    fail = None
    try:
        r = common.run_group([common.PY, "-m", "cutadapt"] + argv, timeout=180)
        if r.returncode == 0:
            fail = "malformed/truncated input of realistic size but exit status 0"
        elif not r.stderr.decode(errors="replace").strip():
            fail = f"exit status {r.returncode} without an error message"
    except subprocess.TimeoutExpired:
        fail = "hang: real multi-core processes did not terminate within 180 s"
    clih.rmtree(wd)
    return dict(name=name, failure=fail)


def plan(tier):
    F = _faults(tier)
    T = []
    for f in F:
        T.append((tier, f["id"], "serial"))
    if tier == "quick":
        for f in F:
            stride = 3 if f["kind"].startswith("trunc") else 1
            if f["off"] % stride == 0 or not f["kind"].startswith("trunc"):
                T.append((tier, f["id"], ("virtual", 2, None, 1)))
        for f in F:
            if f["kind"] == "trunc-gz-large":
                T.append((tier, f["id"], ("virtual", 2, None, 1)))
                T.append((tier, f["id"], ("virtual", 3, None, 0)))
                T.append((tier, f["id"], "free"))
        for f in F:
            if not f["kind"].startswith("trunc") or f["off"] % 16 == 5:
                T.append((tier, f["id"], ("virtual", 2, 1, 1)))
        for f in F:
            if (f["kind"].startswith("trunc") and f["off"] % 40 == 7) or (not f["kind"].startswith("trunc") and f["off"] in (0, 3)):
                T.append((tier, f["id"], "free"))
    else:
        for f in F:
            T.append((tier, f["id"], ("virtual", 2, None, 2 if f["off"] % 4 == 1 or not f["kind"].startswith("trunc") else 1)))
            T.append((tier, f["id"], ("virtual", 2, 1, 1)))
            if f["off"] % 5 == 0:
                T.append((tier, f["id"], ("virtual", 3, None, 1)))
            if f["off"] % 10 == 7 or not f["kind"].startswith("trunc"):
                T.append((tier, f["id"], "free"))
    return T


def run(tier):
    R = common.Result(PROP, tier, "fault_enumeration")
    T = plan(tier)
    out = common.pmap(MOD, "run_task", T, progress=400)
    F = _faults(tier)
    executions = 0
    states = 0
    transitions = 0
    kinds = {}
    malformed_faults = set()
    wellformed_faults = set()
    caps = []
    for r in out:
        executions += r["executions"]
        states += len(r["states"])
        transitions += r["transitions"]
        mode = r["task"][2] if isinstance(r["task"][2], str) else "virtual"
        kinds[(r["kind"], mode)] = kinds.get((r["kind"], mode), 0) + r["executions"]
        (wellformed_faults if r["wellformed"] else malformed_faults).add(r["task"][1])
        if r["cap"]:
            caps.append(r["cap"])
        for choices, fail in r["failures"]:
            f = F[r["task"][1]]
            R.violation(f"{r['kind'].split('-')[0]}-{mode}:{fail.split(':')[0][:50]}", fail,
                        dict(fault=r["kind"], offset=r["off"], mode=r["task"][2], schedule=list(choices), tier=tier,
                             fault_id=r["task"][1], files={k: (v[:60].decode('latin-1') + '...') for k, v in f["files"].items()}))
    big = common.pmap(MOD, "run_big", BIG)
    for r in big:
        executions += 1
        if r["failure"]:
            R.violation(f"realistic-size:{r['name']}", r["failure"], dict(big=r["name"]))
    R.coverage["realistic_size_faults"] = BIG
    R.coverage.update(dict(faults=len(F), malformed_faults=len(malformed_faults), wellformed_faults=len(wellformed_faults),
                           executions_by_fault_kind_and_mode={f"{k[0]}|{k[1]}": v for k, v in sorted(kinds.items())},
                           schedule_states=states, schedule_transitions=transitions, caps_hit=caps))
    R.sample(dict(fault="trunc-plain", offset=57, input_tail=F[57]["files"]["in.fq"][-30:].decode()))
    R.sample(dict(fault=F[-3]["kind"], files=sorted(F[-3]["files"])))
    R.assumptions = ["virtual pipe/queue semantics of DESIGN 1.1 (a receive on an empty pipe blocks for ever: no EOF under fork)",
                     "cutadapt's own one-core processing of the well-formed record prefix is the processing oracle",
                     "well-formedness is decided by the harness's strict FASTQ reader and Python's gzip/zlib"]
    return R.finish(executions, len(malformed_faults) + len(wellformed_faults),
                    "fault = truncation of a 6-record FASTQ at EVERY byte offset (plain and gzip), 9 single-record corruptions x "
                    "first/middle/last record, 14 paired-end/interleaved faults; each executed with one core (in process), with 2-3 "
                    "workers under the virtual scheduler for every schedule with <= d deviations (pipe capacity unbounded and 1), and as "
                    "real OS processes with a time-out; distinct_nontrivial = number of distinct faults",
                    not caps)


def replay(path):
    with open(path) as fh:
        v = json.load(fh)
    print(json.dumps(v, indent=1)[:2500])
    c = v["case"]
    if "big" in c:
        r = run_big(c["big"])
        print("replayed:", r["failure"] or "fine")
        return 1 if r["failure"] else 0
    mode = c["mode"]
    what = mode if isinstance(mode, str) else tuple(mode)
    if what and what[0] == "virtual":
        # replay exactly the recorded schedule
        tier = c.get("tier", "quick")
        f = _faults(tier)[c["fault_id"]]
        wd = os.path.join(common.workdir(), "c12r")
        outd = os.path.join(wd, "out")
        os.makedirs(outd, exist_ok=True)
        paths = setup_fault(f, wd)
        wellformed, good = verdict(f)
        expected = expected_full_output(f, wd, good)
        s = mcharness.run_virtual(argv_for(f, paths, outd, what[1]), outd, prefix=tuple(c["schedule"]), bytes_capacity=what[2],
                                  json_name="none")
        fail = judge(f, wellformed, expected, s, "virtual")
        print("replayed:", fail or "fine")
        return 1 if fail else 0
    r = run_task((c.get("tier", "quick"), c["fault_id"], what))
    print("replayed:", r["failures"] or "fine")
    return 1 if r["failures"] else 0
