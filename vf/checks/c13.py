"""C13 - quality trimming removes exactly the BWA-defined low-quality ends.

Exhaustive enumeration of quality strings (values relative to the cutoff) x cutoff pairs x quality
base at three seams: the index functions, the modifier classes, the command line (output records and
the 'quality-trimmed' figure of the JSON report)."""
import itertools
import json
import os

from .. import clih, common, refops

PROP = "C13"
MOD = "vf.checks.c13"


def _scope(tier):
    if tier == "thorough":
        return dict(deltas=(-3, -2, -1, 0, 1, 2, 3), nmax=9, ns_deltas=(-2, -1, 0, 1, 3), ns_nmax=8,
                    cli_deltas=(-2, -1, 0, 1, 2), cli_nmax=7)
    return dict(deltas=(-2, -1, 0, 1, 2), nmax=8, ns_deltas=(-2, -1, 0, 1, 3), ns_nmax=6,
                cli_deltas=(-2, -1, 0, 1, 2), cli_nmax=5)


def shards(tier):
    sc = _scope(tier)
    out = []
    for base, c in ((33, 10), (64, 20), (33, 2), (64, 1)):
        # base 33, c = 2 with deltas down to -3 would need characters below '!': clip to valid characters; with base 64 the
        # characters below '@' are NEGATIVE qualities (Solexa scale) and stay in (c = 1: values -2..4)
        for first in itertools.product(sc["deltas"], repeat=3 if tier == "thorough" else 2):
            out.append(dict(part="fn", base=base, c=c, first=first, deltas=sc["deltas"], nmax=sc["nmax"]))
        out.append(dict(part="fn_short", base=base, c=c, deltas=sc["deltas"]))
    for first in sc["ns_deltas"]:
        out.append(dict(part="nextseq", base=33, c=10, first=first, deltas=sc["ns_deltas"], nmax=sc["ns_nmax"]))
    out.append(dict(part="nextseq", base=64, c=20, first=None, deltas=(-1, 0, 2), nmax=5))
    out.append(dict(part="printable"))
    out.append(dict(part="long"))  # reads of 300-8000 bases: running sums far beyond what short reads reach
    for cfg in range(len(CLI_CONFIGS)):
        out.append(dict(part="cli", cfg=cfg, deltas=sc["cli_deltas"], nmax=sc["cli_nmax"]))
    return out


def _pairs(c):
    return ((0, c), (c, 0), (c, c), (c, c + 1), (c + 1, c - 1))


def _judge_index(res, q, cf, cb, r, ctx):
    exp = refops.qualtrim(q, cf, cb)
    n = len(q)
    ok = isinstance(r, tuple) and len(r) == 2 and 0 <= r[0] <= r[1] <= n
    if ok:
        if exp[0] == exp[1]:
            ok = r[0] == r[1]
        else:
            ok = tuple(r) == exp
    if not ok:
        res["viol"].append(("index", f"quality_trim_index gave {r}, definition gives {exp}", dict(ctx, q=q, cf=cf, cb=cb)))
    return exp


def run_shard(d):
    from cutadapt.qualtrim import quality_trim_index, nextseq_trim_index
    from cutadapt.modifiers import QualityTrimmer, NextseqQualityTrimmer
    from cutadapt.info import ModificationInfo
    from dnaio import SequenceRecord

    res = dict(evals=0, nontrivial=0, viol=common.Viols(), samples=[], outcomes=set())
    part = d["part"]
    if part in ("fn", "fn_short"):
        base, c = d["base"], d["c"]
        lo = 33 - base
        vals = sorted(set(max(lo, c + x) for x in d["deltas"]))
        if part == "fn_short":
            strings = [()] + [(v,) for v in vals] + [(v, w) for v in vals for w in vals]
        else:
            f0 = tuple(max(lo, c + x) for x in d["first"])
            strings = (f0 + rest for L in range(0, d["nmax"] - len(f0) + 1) for rest in itertools.product(vals, repeat=L))
        trimmers = {p: QualityTrimmer(p[0], p[1], base) for p in _pairs(c)}
        for q in strings:
            q = list(q)
            n = len(q)
            qs = "".join(chr(v + base) for v in q)
            seq = ("ACGT" * 3)[:n]
            for cf, cb in _pairs(c):
                res["evals"] += 1
                r = quality_trim_index(qs, cf, cb, base)
                exp = _judge_index(res, q, cf, cb, r, dict(base=base))
                if exp != (0, n):
                    res["nontrivial"] += 1
                res["outcomes"].add((exp[1] - exp[0], n))
                # statement corollaries
                if all(v >= max(cf, cb) for v in q) and exp != (0, n) and n:
                    res["viol"].append(("oracle", "reference contradicts 'all at or above cutoff unchanged'", dict(q=q)))
                # modifier seam on a sub-scope (every string up to length 6)
                if n <= 6:
                    t = trimmers[(cf, cb)]
                    before = t.trimmed_bases
                    rec = SequenceRecord("r", seq, qs)
                    out = t(rec, ModificationInfo(rec))
                    e0, e1 = exp
                    if out.sequence != seq[e0:e1] or out.qualities != qs[e0:e1] or out.name != "r":
                        res["viol"].append(("modifier", "QualityTrimmer output is not the defined slice",
                                            dict(q=q, cf=cf, cb=cb, base=base, got=[out.sequence, out.qualities])))
                    if t.trimmed_bases - before != n - (e1 - e0):
                        res["viol"].append(("count", "QualityTrimmer.trimmed_bases does not count the removed bases",
                                            dict(q=q, cf=cf, cb=cb, base=base, delta=t.trimmed_bases - before)))
                    if rec.sequence != seq or rec.qualities != qs:
                        res["viol"].append(("modifier", "input record mutated", dict(q=q)))
            if len(res["samples"]) < 2 and n == 5:
                res["samples"].append(dict(qualities=qs, base=base, cutoffs=_pairs(c)[2],
                                           result=list(quality_trim_index(qs, c, c, base))))
    elif part == "nextseq":
        base, c = d["base"], d["c"]
        vals = [c + x for x in d["deltas"]]
        trimmer = NextseqQualityTrimmer(c, base)
        for n in range(0, d["nmax"] + 1):
            for q in itertools.product(vals, repeat=n):
                if d["first"] is not None:
                    if n == 0:
                        if d["first"] != d["deltas"][0]:
                            continue
                    elif q[0] != c + d["first"]:
                        continue
                qs = "".join(chr(v + base) for v in q)
                for sq in itertools.product("AG", repeat=n):
                    sq = "".join(sq)
                    res["evals"] += 1
                    rec = SequenceRecord("r", sq, qs)
                    r = nextseq_trim_index(rec, c, base)
                    e = refops.nextseq3(sq, list(q), c)
                    if r != e:
                        res["viol"].append(("nextseq", f"nextseq_trim_index gave {r}, definition gives {e}",
                                            dict(seq=sq, q=list(q), cutoff=c, base=base)))
                    if e != n:
                        res["nontrivial"] += 1
                    res["outcomes"].add(("ns", n - e))
                    if n <= 5:
                        before = trimmer.trimmed_bases
                        out = trimmer(rec, ModificationInfo(rec))
                        if out.sequence != sq[:e] or out.qualities != qs[:e]:
                            res["viol"].append(("nextseq-mod", "NextseqQualityTrimmer output is not the defined prefix",
                                                dict(seq=sq, q=list(q), cutoff=c, got=[out.sequence, out.qualities])))
                        if trimmer.trimmed_bases - before != n - e:
                            res["viol"].append(("count", "NextseqQualityTrimmer.trimmed_bases wrong",
                                                dict(seq=sq, q=list(q), cutoff=c)))
    elif part == "long":
        pats = []
        for L in (300, 1800, 2500, 8000):
            pats.append([2] * L)
            pats.append([40] * (L // 4) + [3 + (i % 10) for i in range(L - L // 4)])
            pats.append([2 + (i % 9) for i in range(L // 2)] + [38] * (L - L // 2))
            pats.append([12 if i % 7 else 35 for i in range(L)])
            pats.append([30] * (L // 3) + [5] * (L // 3) + [30] * (L - 2 * (L // 3)))
        for q in pats:
            n = len(q)
            for base in (33, 64):
                qs = "".join(chr(v + base) for v in q)
                for cf, cb in ((20, 20), (0, 20), (20, 0), (15, 25)):
                    res["evals"] += 1
                    r = quality_trim_index(qs, cf, cb, base)
                    exp = refops.qualtrim(q, cf, cb)
                    ok = tuple(r) == exp or (exp[0] == exp[1] and r[0] == r[1])
                    if not ok:
                        res["viol"].append(("index", f"quality_trim_index gave {r} on a read of {n} bases, definition gives {exp}",
                                            dict(length=n, pattern=q[:8], cf=cf, cb=cb, base=base)))
                    if exp != (0, n):
                        res["nontrivial"] += 1
            seq = "".join("G" if (i * 7) % 5 == 0 else "A" for i in range(n))
            rec = SequenceRecord("r", seq, "".join(chr(v + 33) for v in q))
            res["evals"] += 1
            r, e = nextseq_trim_index(rec, 20, 33), refops.nextseq3(seq, q, 20)
            if r != e:
                res["viol"].append(("nextseq", f"nextseq_trim_index gave {r} on a read of {n} bases, definition gives {e}", dict(length=n, pattern=q[:8])))
    elif part == "printable":
        # every printable quality character, both bases: single characters and pairs against all cutoffs 0..45
        for base in (33, 64):
            chars = [chr(x) for x in range(33, 127)]  # base 64: the characters below '@' are negative qualities
            for c in range(0, 46, 3):
                for a in chars:
                    for b in (chars[0], chars[len(chars) // 2], chars[-1], a):
                        qs = a + b + a
                        q = [ord(x) - base for x in qs]
                        for cf, cb in ((c, c), (0, c), (c, 0)):
                            res["evals"] += 1
                            r = quality_trim_index(qs, cf, cb, base)
                            exp = _judge_index(res, q, cf, cb, r, dict(base=base))
                            if exp != (0, 3):
                                res["nontrivial"] += 1
    elif part == "cli":
        _cli_shard(d, res)
    res["outcomes"] = len(res["outcomes"])
    return res


# (name, argv fragment, model) ; model(seq, quals(list of ints rel. base), mate) -> (start, stop)
def _m_q(cf, cb):
    return lambda s, q, mate: refops.qualtrim(q, cf, cb)


def _m_ns(c):
    return lambda s, q, mate: (0, refops.nextseq3(s, q, c))


def _m_ns_then_q(c, cf, cb):
    def f(s, q, mate):
        stop = refops.nextseq3(s, q, c)
        a, b = refops.qualtrim(q[:stop], cf, cb)
        return (a, b)
    return f


CLI_CONFIGS = [
    ("q10", ["-q", "10"], 33, 10, _m_q(0, 10), False),
    ("q10,10", ["-q", "10,10"], 33, 10, _m_q(10, 10), False),
    ("q11,9", ["-q", "11,9"], 33, 10, _m_q(11, 9), False),
    ("q10,0", ["-q", "10,0"], 33, 10, _m_q(10, 0), False),
    ("base64", ["-q", "20,20", "--quality-base", "64"], 64, 20, _m_q(20, 20), False),
    ("nextseq", ["--nextseq-trim", "10"], 33, 10, _m_ns(10), False),
    ("nextseq+q", ["-q", "9,11", "--nextseq-trim", "10"], 33, 10, _m_ns_then_q(10, 9, 11), False),
    ("paired-q", ["-q", "10,10"], 33, 10, _m_q(10, 10), True),
    ("paired-qQ", ["-q", "10", "-Q", "11,9"], 33, 10, None, True),
]


def _cli_shard(d, res):
    name, frag, base, c, model, paired = CLI_CONFIGS[d["cfg"]]
    vals = [c + x for x in d["deltas"]]
    recs = []
    k = 0
    for n in range(0, d["nmax"] + 1):
        for q in itertools.product(vals, repeat=n):
            # sequences: alternate a G-rich and a G-free sequence so that nextseq mode is exercised
            seq = "".join(("GAGG", "ACTA", "GGGG", "TCAG")[k % 4][i % 4] for i in range(n))
            recs.append((f"r{k}", seq, "".join(chr(v + base) for v in q)))
            k += 1
    wd = clih.fresh_dir("c13")
    inp = os.path.join(wd, "in.fq")
    clih.write_text(inp, clih.fastq_text(recs))
    out = os.path.join(wd, "out.fq")
    js = os.path.join(wd, "r.json")
    argv = list(frag) + ["--json", js, "-o", out]
    if paired:
        inp2 = os.path.join(wd, "in2.fq")
        recs2 = [(r[0], r[1][::-1], r[2][::-1]) for r in recs]
        clih.write_text(inp2, clih.fastq_text(recs2))
        out2 = os.path.join(wd, "out2.fq")
        argv += ["-p", out2, inp, inp2]
    else:
        argv += [inp]
    r = clih.run_cli(argv)
    case = dict(config=name, argv=frag, n_reads=len(recs))
    if r.exit != 0:
        res["viol"].append(("cli", f"cutadapt failed: exit={r.exit} {r.exc} {r.errors()[:2]}", case))
        return
    _, got = clih.read_records(out)
    files = [(recs, got, 1)]
    if paired:
        files.append((recs2, clih.read_records(out2)[1], 2))
    removed = {1: 0, 2: 0}
    for inrecs, outrecs, mate in files:
        if len(outrecs) != len(inrecs):
            res["viol"].append(("cli", "number of output records differs", case))
            return
        if name == "paired-qQ":
            mdl = _m_q(0, 10) if mate == 1 else _m_q(11, 9)
        else:
            mdl = model
        for (nm, s, qs), o in zip(inrecs, outrecs):
            res["evals"] += 1
            q = [ord(ch) - base for ch in qs]
            a, b = mdl(s, q, mate)
            removed[mate] += len(s) - (b - a)
            if (b - a) != len(s):
                res["nontrivial"] += 1
            if o != (nm, s[a:b], qs[a:b]):
                res["viol"].append(("cli-record", "output record is not the defined slice",
                                    dict(case, read=[nm, s, qs], mate=mate, got=list(o), expected=[s[a:b], qs[a:b]])))
                break
    j = clih.read_json(js)
    bp = j.get("basepair_counts", {})
    qt = bp.get("quality_trimmed")
    qt1 = bp.get("quality_trimmed_read1")
    qt2 = bp.get("quality_trimmed_read2")
    total = removed[1] + removed[2]
    if qt != total or qt1 != removed[1] or (paired and qt2 != removed[2]):
        res["viol"].append(("cli-count", f"JSON quality_trimmed={qt} (R1 {qt1}, R2 {qt2}) but {total} "
                            f"(R1 {removed[1]}, R2 {removed[2]}) bases were removed", case))
    txt = r.report_text()
    want = f"{total:,} bp"
    line = [ln for ln in txt.splitlines() if ln.startswith("Quality-trimmed:")]
    if line and want not in line[0]:
        res["viol"].append(("cli-count", f"text report quality-trimmed line {line} does not state {want}", case))
    # the same figure when two workers process several chunks each (virtual scheduler, fair default schedule)
    from .. import vmp

    # about eight chunks whatever the size of the corpus (the virtual scheduler has a horizon of scheduling points)
    argv2 = ["-j", "2", "--buffer-size", str(max(1500, os.path.getsize(inp) // 8))] + argv
    sched, r2, exc = vmp.run(lambda: clih.run_cli(argv2), policy="fair")
    if r2 is None and not sched.deadlock and exc is None:
        raise common.HarnessError("virtual two-core run did not complete (horizon of scheduling points)")
    if r2 is None or sched.deadlock or r2.exit != 0:
        res["viol"].append(("cli-2cores", f"run with two cores failed: {getattr(r2, 'exit', None)} {exc!r} deadlock={sched.deadlock}", case))
    else:
        bp2 = clih.read_json(js).get("basepair_counts", {})
        got2 = (bp2.get("quality_trimmed"), bp2.get("quality_trimmed_read1"), bp2.get("quality_trimmed_read2") if paired else None)
        if got2 != (total, removed[1], removed[2] if paired else None):
            res["viol"].append(("cli-count", f"with two cores: JSON quality_trimmed={got2[0]} (R1 {got2[1]}, R2 {got2[2]}) but {total} "
                                f"(R1 {removed[1]}, R2 {removed[2]}) bases were removed", case))
    res["samples"].append(dict(argv=frag, first_reads=recs[7:9], n_reads=len(recs), removed=total))
    clih.rmtree(wd)


def run(tier):
    R = common.Result(PROP, tier, "exploration")
    sh = shards(tier)
    out = common.pmap(MOD, "run_shard", sh)
    evals = nontriv = 0
    outcomes = 0
    for d, r in zip(sh, out):
        evals += r["evals"]
        nontriv += r["nontrivial"]
        outcomes = max(outcomes, r["outcomes"])
        R.add("evals_" + d["part"], r["evals"])
        for s in r["samples"]:
            R.sample(s)
        for sig, what, case in r["viol"]:
            R.violation(sig, what, case)
    R.assumptions = ["dnaio record slicing", "quality values enumerated relative to the cutoff (shift invariance is "
                     "itself exercised by three (base, cutoff) settings and the all-printable pass)"]
    return R.finish(evals, nontriv,
                    "all quality strings over {cutoff+d} for the stated deltas up to the stated length x 5 cutoff pairs x "
                    "(base,cutoff) in {(33,10),(64,20),(33,2)}; NextSeq: x all sequences over {A,G}; CLI: all strings "
                    "up to a shorter length through cutadapt.cli.main; non-trivial = the definition removes >= 1 base",
                    True, extra=dict(scope=_scope(tier), distinct_outcomes_max_per_shard=outcomes))


def replay(path):
    with open(path) as f:
        v = json.load(f)
    print(json.dumps(v, indent=1))
    from cutadapt.qualtrim import quality_trim_index

    c = v["case"]
    if "q" in c and "cf" in c:
        base = c.get("base", 33)
        qs = "".join(chr(x + base) for x in c["q"])
        r = quality_trim_index(qs, c["cf"], c["cb"], base)
        e = refops.qualtrim(c["q"], c["cf"], c["cb"])
        print("implementation:", r, "definition:", e)
        return 0 if (tuple(r) == e or (r[0] == r[1] and e[0] == e[1])) else 1
    return 1
