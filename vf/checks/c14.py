"""C14 - poly-A trimming, N-end trimming, N counts and expected errors match their definitions.

Exhaustive enumeration of short sequences / quality strings at the function, modifier/predicate and
command-line seams against declarative definitions (vf.refops)."""
import itertools
import json
import math
import os

from .. import clih, common, refops

PROP = "C14"
MOD = "vf.checks.c14"


def _scope(tier):
    if tier == "thorough":
        return dict(pa_n=15, pa_mixed_n=9, tn_n=12, mn_n=9, ee_n=9, cli_n=8)
    return dict(pa_n=11, pa_mixed_n=7, tn_n=9, mn_n=7, ee_n=7, cli_n=6)


def shards(tier):
    sc = _scope(tier)
    out = []
    for pre in itertools.product("ACT", repeat=4 if tier == "thorough" else 2):
        out.append(dict(part="polya", alpha="ACT", pre="".join(pre), nmax=sc["pa_n"]))
    if tier == "thorough":
        out.append(dict(part="polya_short4", alpha="ACT"))
    out.append(dict(part="polya_short", alpha="ACT"))
    for pre in "AaNGT":
        out.append(dict(part="polya", alpha="AaNGT", pre=pre, nmax=sc["pa_mixed_n"]))
    out.append(dict(part="polya_boundary"))
    for pre in "ACN":
        out.append(dict(part="trimn", pre=pre, nmax=sc["tn_n"]))
    out.append(dict(part="trimn", pre="", nmax=0))
    for pre in "ANn":
        out.append(dict(part="maxn", pre=pre, nmax=sc["mn_n"]))
    out.append(dict(part="maxn", pre="", nmax=0))
    for pre in EE_CHARS:
        out.append(dict(part="ee", pre=pre, nmax=sc["ee_n"]))
    out.append(dict(part="ee_single"))
    # realistic sizes: tails of 20-200 bases interrupted by a run of other bases; reads of 250-700 quality values
    for a in (0, 20, 60, 130):
        out.append(dict(part="polya_long", a=a))
    out.append(dict(part="ee_long"))
    for cfg in range(len(CLI_CONFIGS)):
        out.append(dict(part="cli", cfg=cfg, nmax=sc["cli_n"]))
    return out


EE_CHARS = "!+5?I~"
MAXN_CUTOFFS = (0, 1, 2, 3, 0.25, 0.5, 0.75, 0.3, 0.99)
MAXEE = (0.1, 0.5, 1.0, 1.0001, 2.0, 0.011, 0.2)
MAXAER = (0.1, 0.5, 0.011, 0.25)


def _strings(alpha, pre, nmax):
    if nmax < len(pre):
        return
    for L in range(0, nmax - len(pre) + 1):
        for rest in itertools.product(alpha, repeat=L):
            yield pre + "".join(rest)


def _uq(n):
    """position-unique quality string"""
    return "".join(chr(40 + i) for i in range(n))


def run_shard(d):
    from cutadapt.qualtrim import poly_a_trim_index, expected_errors
    from cutadapt.modifiers import PolyATrimmer, NEndTrimmer
    from cutadapt.predicates import TooManyN, TooManyExpectedErrors, TooHighAverageErrorRate
    from cutadapt.info import ModificationInfo
    from dnaio import SequenceRecord

    res = dict(evals=0, nontrivial=0, viol=common.Viols(), samples=[])
    V = res["viol"]
    part = d["part"]

    def polya_case(s, mod_too):
        n = len(s)
        res["evals"] += 2
        r = poly_a_trim_index(s)
        e = refops.polya3(s)
        if r != e:
            V.append(("polya", f"poly_a_trim_index gave {r}, definition gives {e}", dict(seq=s)))
        r2 = poly_a_trim_index(s, revcomp=True)
        e2 = refops.polyt5(s)
        if r2 != e2:
            V.append(("polyt", f"poly_a_trim_index(revcomp) gave {r2}, definition gives {e2}", dict(seq=s)))
        if e != n:
            res["nontrivial"] += 1
        if e2 != 0:
            res["nontrivial"] += 1
        if mod_too:
            q = _uq(n)
            rec = SequenceRecord("r", s, q)
            for rc, (a, b) in ((False, (0, e)), (True, (e2, n))):
                t = PolyATrimmer(revcomp=rc)
                out = t(rec, ModificationInfo(rec))
                if out.sequence != s[a:b] or out.qualities != q[a:b]:
                    V.append(("polya-mod", "PolyATrimmer output is not the defined slice",
                              dict(seq=s, revcomp=rc, got=[out.sequence, out.qualities])))
                removed = n - (b - a)
                if dict(t.trimmed_bases) != {removed: 1}:
                    V.append(("polya-count", "PolyATrimmer.trimmed_bases does not record the removed length",
                              dict(seq=s, revcomp=rc, got=dict(t.trimmed_bases), removed=removed)))

    if part == "polya":
        for s in _strings(d["alpha"], d["pre"], d["nmax"]):
            polya_case(s, len(s) <= 7)
        res["samples"].append(dict(seq=d["pre"] + "CAAAATAAAA"[: max(0, d["nmax"] - len(d["pre"]))],
                                   polyA_start=poly_a_trim_index(d["pre"] + "CAAAATAAAA"[: max(0, d["nmax"] - len(d["pre"]))])))
    elif part == "polya_short":
        for s in ("", "A", "C", "T"):
            polya_case(s, True)
    elif part == "polya_short4":
        for s in _strings("ACT", "", 3):
            polya_case(s, True)
    elif part == "polya_boundary":
        # long tails at the 20 % boundary: k other bases inside 5k-1, 5k, 5k+1 total, all placements of the others for k<=2
        for total in range(3, 27):
            for k in range(0, 4):
                for pos in itertools.combinations(range(total), k):
                    if k == 3 and (pos[0] > 2 and pos[2] < total - 3):
                        continue
                    s = "".join("C" if i in pos else "A" for i in range(total))
                    for lead in ("", "G", "GA"):
                        polya_case(lead + s, False)
    elif part == "polya_long":
        # prefix + A x a + (other base) x g + A x b + tail, all (g, b) on a grid: score drops and recoveries far beyond what short
        # reads can produce, positions beyond 255
        a = d["a"]
        for g in range(0, 16):
            for b in (0, 3, 11, 20, 59, 60, 61, 100, 200):
                for pre in ("", "GATTACAGATTACA", "C" * 120):
                    for other in ("C", "GT"):
                        gap = (other * g)[:g]
                        for tail in ("", "A", "C"):
                            polya_case(pre + "A" * a + gap + "A" * b + tail, False)
    elif part == "ee_long":
        # one quality value 250-700 times (counters, table look-ups), alone and inside other values
        for base in (33, 64):
            for v in (0, 2, 11, 25, 40, 41, 62):
                for reps in (250, 255, 256, 257, 300, 511, 512, 513, 700):
                    for frame in ("", "I5", "~"):
                        qs = frame + chr(v + base) * reps + frame[::-1]
                        if base == 64 and frame:
                            continue
                        res["evals"] += 1
                        res["nontrivial"] += 1
                        r = expected_errors(qs, base)
                        e = refops.expected_errors(qs, base)
                        if not (abs(r - e) <= 1e-9 * max(1.0, e)):
                            V.append(("ee", f"expected_errors gave {r!r} on {len(qs)} quality values, definition gives {e!r}",
                                      dict(qualities=qs[:6] + "..." + qs[-6:], length=len(qs), base=base)))
                        rec = SequenceRecord("r", "A" * len(qs), qs)
                        if base == 33 and abs(e - 2.0) > 1e-6 and bool(TooManyExpectedErrors(2.0).test(rec, None)) != (e > 2.0):
                            V.append(("maxee", "TooManyExpectedErrors(2.0) wrong on a long read", dict(length=len(qs), ee=e)))
    elif part == "trimn":
        tr = NEndTrimmer()
        for s in _strings("ACN", d["pre"], d["nmax"]):
            res["evals"] += 1
            n = len(s)
            q = _uq(n)
            rec = SequenceRecord("r", s, q)
            out = tr(rec, ModificationInfo(rec))
            a, b = refops.trim_n(s)
            if (a, b) != (0, n):
                res["nontrivial"] += 1
            if out.sequence != s[a:b] or out.qualities != q[a:b] or out.name != "r":
                V.append(("trimn", "NEndTrimmer output is not the read without its terminal N runs",
                          dict(seq=s, got=[out.sequence, out.qualities], expected=s[a:b])))
    elif part == "maxn":
        preds = [(c, TooManyN(c)) for c in MAXN_CUTOFFS]
        for s in _strings("ANn", d["pre"], d["nmax"]):
            rec = SequenceRecord("r", s, None)
            cnt = refops.n_count(s)
            for c, p in preds:
                res["evals"] += 1
                got = bool(p.test(rec, None))
                if c < 1:
                    exp = len(s) > 0 and cnt > c * len(s) and not math.isclose(cnt, c * len(s))
                    if len(s) > 0 and math.isclose(cnt, c * len(s)):
                        exp = False
                else:
                    exp = cnt > c
                if cnt:
                    res["nontrivial"] += 1
                if got != exp:
                    V.append(("maxn", f"TooManyN({c}) says {got}, definition says {exp}", dict(seq=s, n_count=cnt)))
    elif part == "ee":
        pe = [(m, TooManyExpectedErrors(m)) for m in MAXEE]
        pa = [(m, TooHighAverageErrorRate(m)) for m in MAXAER]
        for qs in _strings(EE_CHARS, d["pre"], d["nmax"]):
            res["evals"] += 1
            r = expected_errors(qs)
            e = refops.expected_errors(qs)
            if not (abs(r - e) <= 1e-12 * max(1.0, e)):
                V.append(("ee", f"expected_errors gave {r!r}, definition gives {e!r}", dict(qualities=qs)))
            res["nontrivial"] += 1
            rec = SequenceRecord("r", "A" * len(qs), qs)
            for m, p in pe:
                if abs(e - m) <= 1e-9:
                    continue  # summation-order boundary, judged in ee_single where it is exact
                if bool(p.test(rec, None)) != (e > m):
                    V.append(("maxee", f"TooManyExpectedErrors({m}) wrong", dict(qualities=qs, ee=e)))
            for m, p in pa:
                if len(qs) == 0:
                    exp = False
                elif abs(e / len(qs) - m) <= 1e-9:
                    continue
                else:
                    exp = e / len(qs) > m
                if bool(p.test(rec, None)) != exp:
                    V.append(("maxaer", f"TooHighAverageErrorRate({m}) wrong", dict(qualities=qs, ee=e)))
        res["samples"].append(dict(qualities=d["pre"] + "5?I", expected_errors=expected_errors(d["pre"] + "5?I")))
    elif part == "ee_single":
        for base in (33, 64):
            for v in range(0, 127 - base):
                for reps in (1, 2, 3, 4, 5, 8, 9):
                    qs = chr(v + base) * reps
                    res["evals"] += 1
                    res["nontrivial"] += 1
                    r = expected_errors(qs, base)
                    e = reps * 10 ** (-v / 10)
                    if not (abs(r - e) <= 1e-12 * max(1.0, e)):
                        V.append(("ee", f"expected_errors gave {r!r}, definition gives {e!r}", dict(qualities=qs, base=base)))
        # exact boundary: one Q10 base has exactly 0.1 expected errors -> not above 0.1
        for m, q, exp in ((0.1, "+", False), (1.0, "!", False), (0.01, "5", False), (0.0999, "+", True)):
            res["evals"] += 1
            rec = SequenceRecord("r", "A", q)
            if bool(TooManyExpectedErrors(m).test(rec, None)) != exp:
                V.append(("maxee", f"TooManyExpectedErrors({m}) wrong at the boundary", dict(qualities=q)))
        # invalid characters must be refused, not silently summed
        for bad in (" ", "\x1f", "\x7f"):
            res["evals"] += 1
            try:
                expected_errors("I" + bad + "I")
                V.append(("ee-invalid", "invalid quality character accepted", dict(qualities=repr(bad))))
            except ValueError:
                pass
    elif part == "cli":
        _cli_shard(d, res)
    return res


CLI_CONFIGS = ["poly-a", "poly-a-paired", "trim-n", "max-n-2", "max-n-0.5", "max-ee-0.5", "poly-a+trim-n"]


def _cli_shard(d, res):
    V = res["viol"]
    name = CLI_CONFIGS[d["cfg"]]
    nmax = d["nmax"]
    alpha = {"poly-a": "ACT", "poly-a-paired": "ACT", "trim-n": "ACN", "max-n-2": "ANn", "max-n-0.5": "ANn",
             "max-ee-0.5": "A", "poly-a+trim-n": "ANC"}[name]
    recs = []
    if name == "max-ee-0.5":
        for k, qs in enumerate(_strings("!+5I", "", nmax)):
            recs.append((f"r{k}", "A" * len(qs), qs))
    else:
        for k, s in enumerate(_strings(alpha, "", nmax + (1 if name.startswith("poly") else 0))):
            recs.append((f"r{k}", s, _uq(len(s))))
    wd = clih.fresh_dir("c14")
    inp = os.path.join(wd, "in.fq")
    clih.write_text(inp, clih.fastq_text(recs))
    out = os.path.join(wd, "out.fq")
    js = os.path.join(wd, "r.json")
    frag = {"poly-a": ["--poly-a"], "poly-a-paired": ["--poly-a"], "trim-n": ["--trim-n"], "max-n-2": ["--max-n", "2"],
            "max-n-0.5": ["--max-n", "0.5"], "max-ee-0.5": ["--max-ee", "0.5"],
            "poly-a+trim-n": ["--trim-n", "--poly-a"]}[name]
    argv = frag + ["--json", js, "-o", out]
    paired = name == "poly-a-paired"
    if paired:
        inp2 = os.path.join(wd, "in2.fq")
        recs2 = [(r[0], r[1][::-1].replace("A", "t").replace("T", "A").replace("t", "T"), r[2]) for r in recs]
        clih.write_text(inp2, clih.fastq_text(recs2))
        out2 = os.path.join(wd, "out2.fq")
        argv += ["-p", out2, inp, inp2]
    else:
        argv += [inp]
    r = clih.run_cli(argv)
    case = dict(config=name, argv=frag, n_reads=len(recs))
    if r.exit != 0:
        V.append(("cli", f"cutadapt failed: exit={r.exit} {r.exc} {r.errors()[:2]}", case))
        return
    got = clih.read_records(out)[1]
    exp = []
    removed = 0

    def pa(s, q):
        i = refops.polya3(s)
        return s[:i], q[:i]

    def pt(s, q):
        i = refops.polyt5(s)
        return s[i:], q[i:]

    def tn(s, q):
        a, b = refops.trim_n(s)
        return s[a:b], q[a:b]

    exp2 = []
    for idx, (nm, s, q) in enumerate(recs):
        res["evals"] += 1
        keep = True
        s1, q1 = s, q
        if name in ("poly-a", "poly-a-paired"):
            s1, q1 = pa(s, q)
            removed += len(s) - len(s1)
        elif name == "trim-n":
            s1, q1 = tn(s, q)
        elif name == "poly-a+trim-n":
            # documented order: poly-A first, then --trim-n
            s1, q1 = pa(s, q)
            removed += len(s) - len(s1)
            s1, q1 = tn(s1, q1)
        elif name == "max-n-2":
            keep = not refops.n_count(s) > 2
        elif name == "max-n-0.5":
            keep = not (len(s) > 0 and refops.n_count(s) * 2 > len(s))
        elif name == "max-ee-0.5":
            e = refops.expected_errors(q)
            if abs(e - 0.5) < 1e-9:
                keep = None
            else:
                keep = not e > 0.5
        if (s1, q1) != (s, q) or keep is False:
            res["nontrivial"] += 1
        if paired:
            nm2, s2, q2 = recs2[idx]
            t2 = pt(s2, q2)
            exp2.append((nm2,) + t2)
        exp.append((keep, (nm, s1, q1)))
    gi = 0
    for keep, rec in exp:
        if keep is None:
            if gi < len(got) and got[gi] == rec:
                gi += 1
            continue
        if keep:
            if gi >= len(got) or got[gi] != rec:
                V.append(("cli-record", "output record differs from the definition",
                          dict(case, expected=list(rec), got=list(got[gi]) if gi < len(got) else None)))
                break
            gi += 1
    else:
        if gi != len(got):
            V.append(("cli-record", "more records written than the definition keeps", dict(case, extra=list(got[gi]))))
    if paired:
        got2 = clih.read_records(out2)[1]
        if got2 != exp2:
            bad = next((list(a) + list(b) for a, b in zip(got2, exp2) if a != b), None)
            V.append(("cli-record", "R2 poly-T trimming differs from the definition", dict(case, first_diff=bad)))
    if name.startswith("poly-a"):
        j = clih.read_json(js)
        bp = j.get("basepair_counts", {})
        r2removed = sum(len(a[1]) - len(b[1]) for a, b in zip(recs2, exp2)) if paired else 0
        if bp.get("poly_a_trimmed_read1") != removed or bp.get("poly_a_trimmed") != removed + r2removed:
            V.append(("cli-count", f"JSON poly_a_trimmed={bp.get('poly_a_trimmed')}/{bp.get('poly_a_trimmed_read1')} "
                      f"but {removed}+{r2removed} bases were removed", case))
    res["samples"].append(dict(argv=frag, n_reads=len(recs), example=recs[len(recs) // 2]))
    clih.rmtree(wd)


def run(tier):
    R = common.Result(PROP, tier, "exploration")
    sh = shards(tier)
    out = common.pmap(MOD, "run_shard", sh)
    evals = nontriv = 0
    for d, r in zip(sh, out):
        evals += r["evals"]
        nontriv += r["nontrivial"]
        R.add("evals_" + d["part"], r["evals"])
        for s in r["samples"]:
            R.sample(s)
        for sig, what, case in r["viol"]:
            R.violation(sig, what, case)
    R.assumptions = ["dnaio record slicing", "expected errors compared with relative tolerance 1e-12 (summation order); "
                     "threshold comparisons within 1e-9 of the threshold are judged only where the value is exact"]
    return R.finish(evals, nontriv,
                    "poly-A/poly-T: all sequences over {A,C,T} (and {A,a,N,G,T}) up to the stated length + all placements of <=3 "
                    "other bases in tails of length 3..26 (20% boundary); trim-N: all over {A,C,N}; N count: all over {A,N,n} x 9 "
                    "cut-offs; expected errors: all strings over 6 characters + every valid phred value; each at function, "
                    "modifier/predicate and cli.main seam; non-trivial = the definition changes/filters the read",
                    True, extra=dict(scope=_scope(tier)))


def replay(path):
    with open(path) as f:
        v = json.load(f)
    print(json.dumps(v, indent=1))
    from cutadapt.qualtrim import poly_a_trim_index

    c = v["case"]
    if v["sig"] in ("polya", "polyt"):
        s = c["seq"]
        a, b = poly_a_trim_index(s), refops.polya3(s)
        a2, b2 = poly_a_trim_index(s, revcomp=True), refops.polyt5(s)
        print("poly-A:", a, b, "poly-T:", a2, b2)
        return 0 if (a, a2) == (b, b2) else 1
    return 1
