"""C15 - demultiplexing puts every read into the file of its adapter.

Scenarios: 1-3 named adapters on R1 (and 1-3 on R2) x {name} / {name1}+{name2} x {nothing, --discard-untrimmed,
--untrimmed-output} x --times {1,2} x single/paired x cores {1, 2 (virtual scheduler, default schedule + all
schedules with one deviation)}; corpus with reads matching 0, 1 or 2 different adapters."""
import collections
import json
import os

from .. import clih, common, explore, mcharness, routing, vmp

PROP = "C15"
MOD = "vf.checks.c15"

R1_ADAPTERS = [("-a", "a1=GATCGGAAGA"), ("-a", "a2=TTGCAGTCCA"), ("-g", "a3=CCATGGTACC"), ("-a", "a4=ACTGNNCATGAC")]  # a4: IUPAC wildcards
R2_ADAPTERS = [("-A", "b1=CTGTCTCTTA"), ("-A", "b2=AAGGTTCCAA"), ("-G", "b3=GGTCACGTTC")]
INSERTS = ["ACGTTGCA", "TTGACCGTAGGT", "CAGT", "GGATCCTTAGCAAT", ""]  # "": reads that are nothing but adapters


def seq_of(spec):
    return spec.split("=")[1]


def corpus(adapters, tag):
    """Reads with no adapter, each single adapter (full / partial / with one mismatch), and every ordered pair of two
    different adapters (so that with --times 2 the LAST match decides)."""
    recs = []
    k = 0

    def add(s):
        nonlocal k
        recs.append((f"{tag}{k}", s, "".join("IHGF"[i % 4] for i in range(len(s)))))
        k += 1

    # reads carry real bases where an adapter has the wildcard N
    three = [(f, seq_of(s).replace("N", "G")) for f, s in adapters if f in ("-a", "-A")]
    five = [(f, seq_of(s).replace("N", "G")) for f, s in adapters if f in ("-g", "-G")]
    for ins in INSERTS:
        add(ins)
        for _, a in three:
            add(ins + a)
            add(ins + a[:6])
            add(ins + a[:4] + ("T" if a[4] != "T" else "C") + a[5:] + "ACG")
        for _, a in five:
            add(a + ins)
            add(a[3:] + ins)
        for _, a in three:
            for _, b in three:
                if a != b:
                    add(ins + a + "TCTC" + b)
                    add(ins + a + b[:7])
        for _, g in five:
            for _, a in three:
                add(g + ins + a)
                add("AC" + g + ins + a + "GT")
    return recs


def scenarios(tier):
    S = []
    for layout in ("single", "paired"):
        for n1 in (1, 2, 3, 4):
            for times in (1, 2):
                for final in (None, "discard_untrimmed", "untrimmed_output"):
                    for filt in ([], ["m"]):
                        if n1 == 4 and (layout == "paired" or filt):
                            continue
                        S.append(dict(layout=layout, demux="name", n1=n1, n2=(2 if layout == "paired" else 0), times=times, final=final,
                                      keys=filt, cores=1))
        if layout == "paired":
            for n1 in (1, 2, 3):
                for n2 in (1, 2, 3):
                    for times in (1, 2):
                        for final in (None, "discard_untrimmed"):
                            S.append(dict(layout=layout, demux="combinatorial", n1=n1, n2=n2, times=times, final=final, keys=[], cores=1))
    # --revcomp with combinatorial demultiplexing: the names must be those of the orientation that was chosen
    for n1, n2 in ((1, 1), (2, 2), (2, 1)):
        S.append(dict(layout="paired", demux="combinatorial", n1=n1, n2=n2, times=1, final=None, keys=[], cores=1, revcomp=True))
    # files describing R1 only (info / rest / wildcard file) must not change where a read or pair goes
    for side in ("info_file", "rest_file", "wildcard_file"):
        for layout, demux, n2 in (("single", "name", 0), ("paired", "name", 2), ("paired", "combinatorial", 2)):
            for final in (None, "discard_untrimmed"):
                S.append(dict(layout=layout, demux=demux, n1=2, n2=n2, times=1, final=final, keys=[], cores=1, side=side))
    # --pair-adapters: the file is that of the adapter PAIR that was applied (best total score over all ranks)
    for final in (None, "discard_untrimmed"):
        S.append(dict(layout="paired", demux="name", n1=2, n2=2, times=1, final=final, keys=[], cores=1, pa=True))
    # {name} more than once in the output path
    for layout, n2 in (("single", 0), ("paired", 2)):
        for final in (None, "discard_untrimmed"):
            S.append(dict(layout=layout, demux="name", n1=3, n2=n2, times=1, final=final, keys=[], cores=1, name_twice=True))
    multi = []
    for sc in S:
        if sc["times"] == 2 and not sc["keys"] and (sc["n1"], sc["n2"]) in ((2, 0), (3, 2), (2, 3), (2, 2), (4, 0)):
            multi.append(dict(sc, cores=2))
    return S + multi


def opts_of(sc):
    o = dict(e=0.12, O=4, times=sc["times"])
    o["adapters"] = R1_ADAPTERS[: sc["n1"]]
    if sc["n2"]:
        o["adapters2"] = R2_ADAPTERS[: sc["n2"]]
    if sc["final"] == "discard_untrimmed":
        o["discard_untrimmed"] = True
    if "m" in sc["keys"]:
        o["m"] = "6"
    outs = dict(demux=sc["demux"], untrimmed_output=sc["final"] == "untrimmed_output", too_short_output=False)
    if sc.get("side"):
        outs[sc["side"]] = True
    if sc.get("name_twice"):
        outs["name_twice"] = True
    if sc.get("pa"):
        o["pair_adapters"] = True
        o["O"] = 3
        o["adapters"] = [("-a", "p1=TTGACCA"), ("-a", "p2=ACGTTGCA")]
        o["adapters2"] = [("-A", "q1=GGATCAT"), ("-A", "q2=CATGGTAC")]
    return o, outs


def pa_corpus():
    """Pairs for --pair-adapters: every combination of {nothing, full adapter, short partial occurrence, the last three bases of the
    rank-1 adapter followed by the full rank-2 adapter} on R1 and on R2."""
    P1, P2, Q1, Q2 = "TTGACCA", "ACGTTGCA", "GGATCAT", "CATGGTAC"
    v1 = ["", P1, P2, P1[:4], P2[:4], P1[-3:] + P2, P2 + "GT" + P1]
    v2 = ["", Q1, Q2, Q1[:4], Q2[:4], Q1[-3:] + Q2, Q2 + "AC" + Q1]
    r1, r2 = [], []
    k = 0
    for a in v1:
        for b in v2:
            ins = INSERTS[k % 4]
            s1, s2 = ins + a, ins[::-1] + b
            r1.append((f"r{k}", s1, "".join("IHGF"[i % 4] for i in range(len(s1)))))
            r2.append((f"r{k}", s2, "".join("FGHI"[i % 4] for i in range(len(s2)))))
            k += 1
    return r1, r2


def shards(tier):
    n = 24
    total = len(scenarios(tier))
    return [dict(tier=tier, idx=list(range(i, total, n))) for i in range(n)]


def run_shard(d):
    S = scenarios(d["tier"])
    wd = clih.fresh_dir("c15")
    res = dict(evals=0, runs=0, nontrivial=0, executions=0, viol=common.Viols(cap=3), samples=[], files_checked=0)
    for i in d["idx"]:
        sc = S[i]
        o, outs = opts_of(sc)
        paired = sc["layout"] != "single"
        r1 = corpus(o["adapters"], "r")
        r2 = None
        if paired:
            base = corpus(o["adapters2"], "x")
            r2 = [(r1[j][0], base[(j * 5 + j // 3) % len(base)][1], base[(j * 5 + j // 3) % len(base)][2]) for j in range(len(r1))]
        if sc.get("pa"):
            r1, r2 = pa_corpus()
        label = f"{sc['demux']}:{'pe' if paired else 'se'}" + (":pair-adapters" if sc.get("pa") else "")
        if sc.get("revcomp"):
            _revcomp_combinatorial(sc, o, r1, r2, wd, res, label)
            continue
        if sc["cores"] == 1:
            out = routing.run_scenario(o, outs, sc["layout"], r1, r2, wd, want_json=False)
            res["runs"] += 1
            res["evals"] += len(r1)
            res["nontrivial"] += sum(v for k, v in out["stats"]["categories"].items() if k.startswith("('out', '"))
            res["files_checked"] += len(out["got"])
            for kind, what, detail in out["violations"]:
                if kind in ("content", "unit"):
                    continue  # the trimmed records themselves are judged by C03/C09/C10 (and by the differential below)
                res["viol"].append((f"{label}:{kind}", what, dict(scenario=sc, argv=[a for a in out["stats"]["argv"] if not a.startswith("/")], **detail)))
            # differential: without demultiplexing the same records must come out (no trimmed/untrimmed option)
            if sc["final"] is None and not out["violations"]:
                o2, outs2 = dict(o), dict(outs, demux=None)
                wd2 = os.path.join(wd, "plain")
                os.makedirs(wd2, exist_ok=True)
                ref = routing.run_scenario(o2, outs2, sc["layout"], r1, r2, wd2, want_json=False)
                res["runs"] += 1
                a = collections.Counter()
                for cat, g in out["got"].items():
                    if g and cat[0] == "out":
                        for j, x in enumerate(g[0]):
                            a[(tuple(x), tuple(g[1][j]) if g[1] is not None else None)] += 1
                b = collections.Counter()
                g = ref["got"].get(("out",))
                if g:
                    for j, x in enumerate(g[0]):
                        b[(tuple(x), tuple(g[1][j]) if g[1] is not None else None)] += 1
                if a != b:
                    diff = list((a - b).items())[:1] + list((b - a).items())[:1]
                    res["viol"].append((f"{label}:multiset", "records over all demultiplexed files differ from the output without demultiplexing",
                                        dict(scenario=sc, difference=str(diff)[:400])))
        else:
            _multicore(sc, o, outs, r1, r2, wd, res, label)
        if not res["samples"] and sc["times"] == 2 and sc["n1"] >= 2:
            res["samples"].append(dict(scenario=sc, adapters=o["adapters"], example_read=list(r1[len(r1) // 2])))
    clih.rmtree(wd)
    return res


def _revcomp_combinatorial(sc, o, r1, r2, wd, res, label):
    """Paired --revcomp + {name1}/{name2}: expected file from the adapter-trimming stage applied to the pair as given and
    swapped (the same oracle as C16), then the last-match names of the chosen orientation."""
    from cutadapt.modifiers import AdapterCutter
    from dnaio import SequenceRecord

    a1, a2 = routing.make_adapters(o)
    c1, c2 = AdapterCutter(a1, 1, "trim", index=False), AdapterCutter(a2, 1, "trim", index=False)
    # make some pairs arrive swapped: exchange the mates of every third pair
    p1 = [(r2[i] if i % 3 == 1 else r1[i]) for i in range(len(r1))]
    p2 = [(r1[i] if i % 3 == 1 else r2[i]) for i in range(len(r1))]
    p1 = [(r1[i][0], x[1], x[2]) for i, x in enumerate(p1)]
    p2 = [(r1[i][0], x[1], x[2]) for i, x in enumerate(p2)]
    ind, outd = os.path.join(wd, "rc-in"), os.path.join(wd, "rc-out")
    for d_ in (ind, outd):
        os.makedirs(d_, exist_ok=True)
        for n in os.listdir(d_):
            os.unlink(os.path.join(d_, n))
    f1, f2 = os.path.join(ind, "in.1.fq"), os.path.join(ind, "in.2.fq")
    clih.write_text(f1, clih.fastq_text(p1))
    clih.write_text(f2, clih.fastq_text(p2))
    argv = ["--no-index", "--revcomp"] + routing.build_argv(o, dict(demux="combinatorial"), "paired", outd, [f1, f2])
    r = clih.run_cli(argv)
    res["runs"] += 1
    case = dict(scenario=sc, argv=[a for a in argv if not a.startswith("/")])
    if r.exit != 0:
        res["viol"].append((f"{label}:revcomp:cli", f"cutadapt failed: {r.exit} {r.exc} {r.errors()[:1]}", case))
        return
    where = {}
    for n in os.listdir(outd):
        if n.endswith(".1.fq"):
            for rec in clih.read_records(os.path.join(outd, n))[1]:
                where.setdefault(rec[0].split()[0], []).append(n[len("out-"):-len(".1.fq")])
    for (nm, s1, q1), (_, s2, q2) in zip(p1, p2):
        res["evals"] += 1
        t1, m1 = c1.match_and_trim(SequenceRecord(nm, s1, q1))
        t2, m2 = c2.match_and_trim(SequenceRecord(nm, s2, q2))
        u1, n1 = c1.match_and_trim(SequenceRecord(nm, s2, q2))
        u2, n2 = c2.match_and_trim(SequenceRecord(nm, s1, q1))
        fs = sum(m.score for m in m1) + sum(m.score for m in m2)
        ss = sum(m.score for m in n1) + sum(m.score for m in n2)
        use = bool(n1 or n2) and ss > fs
        e1, e2 = (n1, n2) if use else (m1, m2)
        exp = f"{e1[-1].adapter.name if e1 else 'unknown'}-{e2[-1].adapter.name if e2 else 'unknown'}"
        if use:
            res["nontrivial"] += 1
        got = where.get(nm.split()[0], [])
        if got != [exp]:
            res["viol"].append((f"{label}:revcomp:demux", f"pair must be in the file for {exp} but is in {got}",
                                dict(case, r1=[nm, s1], r2=[nm, s2], swapped_orientation_chosen=use)))


def _multicore(sc, o, outs, r1, r2, wd, res, label):
    """Several cores: every schedule with <= 1 deviation must produce the files of the one-core run."""
    ind = os.path.join(wd, "mc-in")
    os.makedirs(ind, exist_ok=True)
    refd, rund = os.path.join(wd, "mc-ref"), os.path.join(wd, "mc-run")
    for x in (refd, rund):
        os.makedirs(x, exist_ok=True)
    if r2 is None:
        p = os.path.join(ind, "in.fq")
        clih.write_text(p, clih.fastq_text(r1[:24]))
        inputs = [p]
    else:
        p1, p2 = os.path.join(ind, "in.1.fq"), os.path.join(ind, "in.2.fq")
        clih.write_text(p1, clih.fastq_text(r1[:24]))
        clih.write_text(p2, clih.fastq_text(r2[:24]))
        inputs = [p1, p2]

    def argv(dd, cores):
        return ["--buffer-size", "700"] + routing.build_argv(o, outs, sc["layout"], dd, inputs, cores=cores)

    ref = mcharness.run_serial(argv(refd, 1), refd, json_name="none")
    if ref.exit != 0:
        res["viol"].append((f"{label}:cli", f"one-core run failed: {ref.exit} {ref.errors[:1]}", dict(scenario=sc)))
        return

    def run_exec(prefix):
        s = mcharness.run_virtual(argv(rund, 2), rund, prefix=prefix, json_name="none")
        if s.divergence:
            raise vmp.HarnessNondeterminism(s.divergence)
        s.json, s.report = ref.json, ref.report  # only the files are compared here (reports are C06's business)
        return s.points, s.outcome_key(), mcharness.diff_summaries(ref, s)

    r = explore.explore(run_exec, "D", bound=1)
    res["executions"] += r.executions
    res["evals"] += r.executions * len(inputs) * 24
    for prefix, fail, choices in r.failures[:2]:
        res["viol"].append((f"{label}:multicore", "with 2 cores: " + fail, dict(scenario=sc, schedule=list(choices))))


def run(tier):
    R = common.Result(PROP, tier, "exploration")
    sh = shards(tier)
    out = common.pmap(MOD, "run_shard", sh)
    tot = {}
    for r in out:
        for k, v in r.items():
            if isinstance(v, int):
                tot[k] = tot.get(k, 0) + v
        for s in r["samples"]:
            R.sample(s)
        for sig, what, case in r["viol"]:
            R.violation(sig, what, case)
    R.counters = tot
    R.coverage["scenarios"] = len(scenarios(tier))
    R.assumptions = ["each adapter's own match_to (C01/C02); best-of / rounds rule as in C09", "several cores: virtual scheduler of C06, "
                     "default schedule and every schedule with one deviation"]
    return R.finish(tot.get("evals", 0), tot.get("nontrivial", 0),
                    "scenarios = {name}: 1-3 named R1 adapters (3' and 5') x --times {1,2} x {none,--discard-untrimmed,--untrimmed-output} x "
                    "{no filter, -m} x {single, paired}; {name1}/{name2}: 1-3 x 1-3 adapters (unequal counts included) x --times x "
                    "{none,--discard-untrimmed}; each also as a multiset comparison with the run without demultiplexing; 2-core runs under the "
                    "virtual scheduler for 8 scenarios; corpus: no adapter, each adapter full/partial/with a mismatch, every ordered pair of "
                    "two different adapters; non-trivial = reads routed to an adapter's file",
                    True)


def replay(path):
    with open(path) as f:
        v = json.load(f)
    print(json.dumps(v, indent=1)[:3000])
    sc = v["case"]["scenario"]
    res = dict(evals=0, runs=0, nontrivial=0, executions=0, viol=common.Viols(cap=3), samples=[], files_checked=0)
    S = scenarios("quick")
    if sc not in S:
        return 1
    r = run_shard(dict(tier="quick", idx=[S.index(sc)]))
    print("violations on replay:", [x[:2] for x in r["viol"][:4]])
    return 1 if r["viol"] else 0
