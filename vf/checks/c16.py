"""C16 - --revcomp keeps the orientation that matches strictly better.

Modifier seam: ReverseComplementer / PairedReverseComplementer around the real AdapterCutter, on ALL reads over
ACGT up to a length (pairs from a menu), adapter sets from the C09 menu, every action, --times 1-2, error rates
up to 0.7 (negative scores occur).  Oracle: the same AdapterCutter.match_and_trim applied to the given
orientation and to the reverse complement (swapped pair) + the stated strict-improvement rule.  A command-line
pass checks names, {rc}, later stages and the reverse-complemented count."""
import itertools
import json
import os

from .. import alignsweep, clih, common, refops

PROP = "C16"
MOD = "vf.checks.c16"

MENU = [
    ("back", "b1=ACG"), ("back", "b2=ACGTT"), ("front", "f1=ACG"), ("front", "f2=XAAAAT"), ("anywhere", "w1=CGA"), ("front", "p1=^AC"),
    ("back", "s1=GT$"), ("back", "l1=^AC...GT"), ("front", "l3=AC...GT"), ("back", "n1=GTAX"),
]
ACTIONS = ["trim", "none", "lowercase", "mask", "retain", "crop"]
RATES = [(0.34, 2), (0.7, 2), (0.7, 5), (0.0, 3)]


def make(specs, rate, ovl):
    from cutadapt.parser import make_adapters_from_specifications

    return make_adapters_from_specifications(list(specs), dict(max_errors=rate, min_overlap=ovl, read_wildcards=False,
                                                              adapter_wildcards=True, indels=True))


def lists(tier):
    idx = range(len(MENU))
    out = [(i,) for i in idx]
    pairs = list(itertools.permutations(idx, 2))
    out += pairs if tier == "thorough" else [p for k, p in enumerate(pairs) if k % 3 == 0]
    return out


def shards(tier):
    L = lists(tier)
    n = 48
    sh = [dict(kind="single", tier=tier, idx=list(range(i, len(L), n))) for i in range(n)]
    sh += [dict(kind="paired", tier=tier, part=i, parts=8) for i in range(8)]
    sh += [dict(kind="cli", tier=tier, part=i, parts=4) for i in range(4)]
    sh += [dict(kind="multicore", tier=tier, part=i) for i in range(3)]
    return sh


def uq(n, off=0):
    return "".join(chr(48 + off + i) for i in range(n))


def mtuple(matches):
    out = []
    for m in matches:
        if hasattr(m, "front_match"):
            out.append((m.adapter.name, tuple((x.rstart, x.rstop, x.errors) if x is not None else None for x in (m.front_match, m.back_match))))
        else:
            out.append((m.adapter.name, m.rstart, m.rstop, m.errors))
    return out


def run_multicore_shard(d):
    """Several cores: the reverse-complemented figure and the ' rc' names must be those of the one-core run under every
    schedule with <= 1 deviation (statistics are merged across workers; a worker may have reverse-complemented nothing)."""
    from .. import mcharness

    res = dict(evals=0, nontrivial=0, rc_chosen=0, ties=0, negative=0, viol=common.Viols(cap=3), samples=[], cli_runs=0)
    wd = clih.fresh_dir("c16mc")
    A = "ACGTACGGTT"
    fwd = ["CATCATGTGTGTCATT" + A, "GGGTTTACACACTTGG" + A + "AC", "TATATACCGGTTAACC"]
    rcs = [refops.revcomp(x) for x in fwd[:2]]
    # first chunk(s) hold reads that need the reverse complement, the last ones hold reads that do not (and the other way round)
    orders = [rcs + rcs + fwd + fwd, fwd + fwd + rcs + rcs, [rcs[0], fwd[0], fwd[1], fwd[2], rcs[1], fwd[0]]]
    seqs = orders[d["part"]]
    recs = [(f"r{i}", s_, uq(len(s_) % 60)[: len(s_)].ljust(len(s_), "I")) for i, s_ in enumerate(seqs)]
    inp = os.path.join(wd, "in.fq")
    clih.write_text(inp, clih.fastq_text(recs))

    def argv(dd, cores):
        return ["-j", str(cores), "--buffer-size", "170", "--revcomp", "-a", f"ad={A}", "--json", os.path.join(dd, "report.json"),
                "-o", os.path.join(dd, "out.fq"), inp]

    n, fails = mcharness.explore_vs_serial(argv, wd, bound=1, workers=2, compare_reports=True)
    res["cli_runs"] += n
    res["evals"] += n * len(recs)
    res["nontrivial"] += n
    for sched, fail in fails:
        res["viol"].append(("multicore:count", "with 2 cores: " + fail, dict(schedule=list(sched), reads=seqs[:3])))
    clih.rmtree(wd)
    return res


def run_shard(d):
    if d["kind"] == "cli":
        return run_cli_shard(d)
    if d["kind"] == "multicore":
        return run_multicore_shard(d)
    from cutadapt.adapters import LinkedAdapter
    from cutadapt.info import ModificationInfo
    from cutadapt.modifiers import AdapterCutter, ReverseComplementer, PairedReverseComplementer
    from dnaio import SequenceRecord

    res = dict(evals=0, nontrivial=0, rc_chosen=0, ties=0, negative=0, viol=common.Viols(cap=3), samples=[])
    V = res["viol"]
    L = lists(d["tier"])
    if d["kind"] == "single":
        nmax = 6 if d["tier"] == "quick" else 7
        R = list(alignsweep.strings("ACGT", nmax))
        for li in d["idx"]:
            specs = [MENU[i] for i in L[li]]
            for rate, ovl in RATES:
                ads = make(specs, rate, ovl)
                has_linked = any(isinstance(a, LinkedAdapter) for a in ads)
                for times in (1, 2):
                    for action in ACTIONS:
                        if action in ("retain", "crop") and times > 1:
                            continue
                        if has_linked and action in ("mask", "crop"):
                            continue
                        if d["tier"] == "quick" and action not in ("trim", "lowercase") and (rate, ovl) != (0.7, 2):
                            continue
                        act = None if action == "none" else action
                        cutter = AdapterCutter(ads, times=times, action=act, index=False)
                        plain = AdapterCutter(ads, times=times, action=act, index=False)
                        rcer = ReverseComplementer(cutter)
                        cfg = dict(adapters=[s for _, s in specs], types=[t for t, _ in specs], rate=rate, min_overlap=ovl, times=times,
                                   action=action)
                        for r in R:
                            n = len(r)
                            q = uq(n)
                            res["evals"] += 1
                            rec = SequenceRecord("r", r, q)
                            info = ModificationInfo(rec)
                            before = rcer.reverse_complemented
                            try:
                                out = rcer(rec, info)
                            except Exception as e:  # noqa
                                V.append((f"{action}:exception", f"{type(e).__name__}: {e}", dict(cfg, read=r)))
                                continue
                            fwd, fm = plain.match_and_trim(SequenceRecord("r", r, q))
                            rseq, rq = refops.revcomp(r), q[::-1]
                            rev, rm = plain.match_and_trim(SequenceRecord("r", rseq, rq))
                            fs, rs = sum(m.score for m in fm), sum(m.score for m in rm)
                            use_rc = bool(rm) and rs > fs
                            if fm and rm:
                                res["nontrivial"] += 1
                            if fm and rm and fs == rs:
                                res["ties"] += 1
                            if fs < 0 or rs < 0:
                                res["negative"] += 1
                            if use_rc:
                                res["rc_chosen"] += 1
                            exp, em = (rev, rm) if use_rc else (fwd, fm)
                            ename = "r rc" if use_rc else "r"
                            if (out.sequence, out.qualities, out.name) != (exp.sequence, exp.qualities, ename):
                                V.append((f"{action}:orientation", "result is not the stated orientation (given orientation unless the reverse "
                                          "complement has a match and a strictly higher total score)",
                                          dict(cfg, read=r, got=[out.name, out.sequence, out.qualities], expected=[ename, exp.sequence, exp.qualities],
                                               forward_score=fs, reverse_score=rs, reverse_has_match=bool(rm))))
                                continue
                            if bool(info.is_rc) != use_rc or mtuple(info.matches) != mtuple(em) or (rcer.reverse_complemented - before) != int(use_rc):
                                V.append((f"{action}:bookkeeping", "is_rc flag / recorded matches / reverse-complemented counter do not describe the chosen orientation",
                                          dict(cfg, read=r, is_rc=info.is_rc, expected_rc=use_rc, matches=str(mtuple(info.matches)), expected=str(mtuple(em)))))
                        if not res["samples"] and rate == 0.7:
                            res["samples"].append(dict(cfg, reads=len(R)))
    else:
        # paired: every pair from a menu of reads
        menu = [r for r in alignsweep.strings("ACGT", 5) if len(r) >= 2][:: 9]
        menu = menu[:40]
        Lp = [c for k, c in enumerate(L) if k % d["parts"] == d["part"]]
        for combo in Lp:
            specs = [MENU[i] for i in combo]
            for rate, ovl in RATES[:3]:
                ads1 = make(specs, rate, ovl)
                ads2 = make([MENU[(i + 3) % len(MENU)] for i in combo], rate, ovl)
                for which in ("both", "r1", "r2"):
                    for action in ("trim", "lowercase", "mask", "none"):
                        act = None if action == "none" else action
                        c1 = AdapterCutter(ads1, times=1, action=act, index=False) if which in ("both", "r1") else None
                        c2 = AdapterCutter(ads2, times=1, action=act, index=False) if which in ("both", "r2") else None
                        p1 = AdapterCutter(ads1, times=1, action=act, index=False) if c1 else None
                        p2 = AdapterCutter(ads2, times=1, action=act, index=False) if c2 else None
                        rcer = PairedReverseComplementer(c1, c2)
                        cfg = dict(adapters1=[s for _, s in specs], rate=rate, min_overlap=ovl, action=action, cutters=which)

                        def mt(p, seq, q):
                            if p is None:
                                return SequenceRecord("r", seq, q), []
                            return p.match_and_trim(SequenceRecord("r", seq, q))

                        # every pair as given, and (every other R1) spelled in lower case: case is part of what is returned
                        pairs = [(a, b) for a in menu for b in menu[::3]] + [(a.lower(), b.lower()) for a in menu[::2] for b in menu[::3]]
                        for a, b in pairs:
                            if True:
                                res["evals"] += 1
                                qa, qb = uq(len(a)), uq(len(b), 10)
                                i1 = ModificationInfo(SequenceRecord("r", a, qa))
                                i2 = ModificationInfo(SequenceRecord("r", b, qb))
                                o1, o2 = rcer(SequenceRecord("r", a, qa), SequenceRecord("r", b, qb), i1, i2)
                                f1, m1 = mt(p1, a, qa)
                                f2, m2 = mt(p2, b, qb)
                                s1, n1 = mt(p1, b, qb)
                                s2, n2 = mt(p2, a, qa)
                                fs = sum(m.score for m in m1) + sum(m.score for m in m2)
                                ss = sum(m.score for m in n1) + sum(m.score for m in n2)
                                use = bool(n1 or n2) and ss > fs
                                if (m1 or m2) and (n1 or n2):
                                    res["nontrivial"] += 1
                                if use:
                                    res["rc_chosen"] += 1
                                e1, e2 = (s1, s2) if use else (f1, f2)
                                suf = " rc" if use else ""
                                if (o1.sequence, o1.qualities, o1.name, o2.sequence, o2.qualities, o2.name) != \
                                        (e1.sequence, e1.qualities, "r" + suf, e2.sequence, e2.qualities, "r" + suf):
                                    V.append((f"paired:{action}:orientation", "pair is not in the stated orientation",
                                              dict(cfg, r1=a, r2=b, got=[o1.name, o1.sequence, o2.sequence], expected=[e1.sequence, e2.sequence],
                                                   unswapped_score=fs, swapped_score=ss)))
                                elif bool(i1.is_rc) != use or bool(i2.is_rc) != use:
                                    V.append((f"paired:{action}:bookkeeping", "is_rc flags do not describe the chosen orientation", dict(cfg, r1=a, r2=b)))
                                else:
                                    em1, em2 = (n1, n2) if use else (m1, m2)
                                    if mtuple(i1.matches) != mtuple(em1) or mtuple(i2.matches) != mtuple(em2):
                                        V.append((f"paired:{action}:matches", "matches recorded for R1/R2 are not those of the chosen orientation "
                                                  "(later stages such as demultiplexing and renaming use them)",
                                                  dict(cfg, r1=a, r2=b, recorded=[str(mtuple(i1.matches)), str(mtuple(i2.matches))],
                                                       expected=[str(mtuple(em1)), str(mtuple(em2))])))
    return res


def run_cli_shard(d):
    res = dict(evals=0, nontrivial=0, rc_chosen=0, ties=0, negative=0, viol=common.Viols(cap=3), samples=[], cli_runs=0)
    V = res["viol"]
    from cutadapt.modifiers import AdapterCutter
    from dnaio import SequenceRecord

    R = [r for r in alignsweep.strings("ACGT", 6) if len(r) >= 3][:: 5]
    recs = [(f"r{i} c", r, uq(len(r))) for i, r in enumerate(R)]
    wd = clih.fresh_dir("c16")
    inp = os.path.join(wd, "in.fq")
    clih.write_text(inp, clih.fastq_text(recs))
    out = os.path.join(wd, "out.fq")
    js = os.path.join(wd, "r.json")
    flag = {"back": "-a", "front": "-g", "anywhere": "-b"}
    L = [c for k, c in enumerate(lists("quick")) if k % d["parts"] == d["part"]]
    for combo in L:
        specs = [MENU[i] for i in combo]
        for rate, ovl in RATES[:2]:
            ads = make(specs, rate, ovl)
            plain = AdapterCutter(ads, times=1, action="trim", index=False)
            for variant in ("suffix", "rename", "length", "polya", "info"):
                argv = ["--no-index", "--revcomp", "-e", repr(rate), "-O", str(ovl), "-o", out, "--json", js]
                if variant == "rename":
                    argv += ["--rename", "{id}|{rc}|{adapter_name}"]
                if variant == "length":
                    argv += ["--length", "2"]
                if variant == "polya":
                    argv += ["--poly-a"]  # a later stage: it must see the read in the chosen orientation (tail at the 3' end)
                if variant == "info":
                    # an output: it must describe the chosen orientation, also when a 5' base was removed before adapter trimming
                    argv += ["-u", "1", "--info-file", os.path.join(wd, "info.tsv")]
                for t, s in specs:
                    argv += [flag[t], s]
                r = clih.run_cli(argv + [inp])
                res["cli_runs"] += 1
                cfg = dict(adapters=[s for _, s in specs], rate=rate, min_overlap=ovl, variant=variant, seam="cli")
                if r.exit != 0:
                    V.append(("cli:failed", f"cutadapt failed: {r.exit} {r.exc} {r.errors()[:1]}", cfg))
                    continue
                got = clih.read_records(out)[1]
                nrc = 0
                info_rows = {}
                if variant == "info":
                    with open(os.path.join(wd, "info.tsv")) as fh:
                        for ln in fh:
                            row = ln.rstrip("\n").split("\t")
                            info_rows.setdefault(row[0].split()[0], []).append(row)
                for (nm, s, q), g in zip(recs, got):
                    res["evals"] += 1
                    cutn = 1 if variant == "info" else 0
                    fwd, fm = plain.match_and_trim(SequenceRecord(nm, s[cutn:], q[cutn:]))
                    rev, rm = plain.match_and_trim(SequenceRecord(nm, refops.revcomp(s[cutn:]), q[cutn:][::-1]))
                    use = bool(rm) and sum(m.score for m in rm) > sum(m.score for m in fm)
                    nrc += int(use)
                    e, em = (rev, rm) if use else (fwd, fm)
                    es, eq = e.sequence, e.qualities
                    if variant == "length":
                        es, eq = es[:2], eq[:2]
                    if variant == "polya":
                        cut = refops.polya3(es)
                        es, eq = es[:cut], eq[:cut]
                    if variant == "rename":
                        en = f"{nm.split()[0]}|{'rc' if use else ''}|{em[-1].adapter.name if em else 'no_adapter'}"
                    else:
                        en = nm + (" rc" if use else "")
                    if tuple(g) != (en, es, eq):
                        V.append(("cli:record", "command-line output is not the stated orientation / name", dict(cfg, read=s, got=list(g), expected=[en, es, eq])))
                        break
                    if variant == "info" and em:
                        row = (info_rows.get(nm.split()[0]) or [[]])[0]
                        whole_s, whole_q = (refops.revcomp(s), q[::-1]) if use else (s, q)
                        ok = len(row) >= 12 and row[4] + row[5] + row[6] == whole_s and row[8] + row[9] + row[10] == whole_q and \
                            row[11] == ("1" if use else "0") and whole_s[int(row[2]):int(row[3])] == row[5]
                        m0 = em[0]
                        if ok and hasattr(m0, "rstart") and not hasattr(m0, "front_match"):
                            # where the match lies in the read as read (the base removed by -u 1 is at the 3' end after reverse
                            # complementing, at the 5' end otherwise)
                            shift = 0 if use else cutn
                            ok = (int(row[2]), int(row[3])) == (m0.rstart + shift, m0.rstop + shift)
                        if not ok:
                            V.append(("cli:info", "the info-file row of the read does not describe it in the chosen orientation",
                                      dict(cfg, read=s, row=row, chosen="reverse complement" if use else "as given")))
                            break
                else:
                    j = clih.read_json(js)
                    if j["read_counts"].get("reverse_complemented") != nrc:
                        V.append(("cli:count", f"JSON reverse_complemented={j['read_counts'].get('reverse_complemented')} but {nrc} reads were "
                                  "reverse-complemented", cfg))
                    res["rc_chosen"] += nrc
    clih.rmtree(wd)
    return res


def run(tier):
    R = common.Result(PROP, tier, "exploration")
    sh = shards(tier)
    out = common.pmap(MOD, "run_shard", sh)
    tot = {}
    for r in out:
        for k, v in r.items():
            if isinstance(v, int):
                tot[k] = tot.get(k, 0) + v
        for s in r["samples"]:
            R.sample(s)
        for sig, what, case in r["viol"]:
            R.violation(sig, what, case)
    R.counters = tot
    R.assumptions = ["the adapter-trimming stage without --revcomp (AdapterCutter.match_and_trim, judged by C09) is the reference for each "
                     "orientation; only the choice between the orientations and its bookkeeping is judged here"]
    return R.finish(tot.get("evals", 0), tot.get("nontrivial", 0) + tot.get("negative", 0) + tot.get("ties", 0),
                    "adapter lists from a 10-entry menu (singles + pairs) x 4 (error rate, min overlap) settings incl. 0.7 x --times {1,2} x actions "
                    "x ALL reads over ACGT up to length 6 (7) at the ReverseComplementer seam; pairs from a 40-read menu at the "
                    "PairedReverseComplementer seam with cutters on {both,R1,R2}; cli.main pass with ' rc' suffix, --rename {rc} and a later "
                    "stage; non-trivial = both orientations match, scores tie, or a score is negative",
                    True)


def replay(path):
    with open(path) as f:
        v = json.load(f)
    print(json.dumps(v, indent=1))
    c = v["case"]
    if "r1" in c and "adapters1" in c:
        return _replay_paired(c)
    if "read" not in c or "types" not in c:
        import sys
        return common.replay_by_rerun(sys.modules[__name__], PROP, path)
    from cutadapt.info import ModificationInfo
    from cutadapt.modifiers import AdapterCutter, ReverseComplementer
    from dnaio import SequenceRecord

    ads = make(list(zip(c["types"], c["adapters"])), c["rate"], c["min_overlap"])
    act = None if c["action"] == "none" else c["action"]
    r = c["read"]
    q = uq(len(r))
    try:
        out = ReverseComplementer(AdapterCutter(ads, times=c["times"], action=act, index=False))(SequenceRecord("r", r, q),
                                                                                                  ModificationInfo(SequenceRecord("r", r, q)))
        print("implementation:", out.name, out.sequence)
    except Exception as e:  # noqa
        print("implementation raised", type(e).__name__, e)
        return 1
    p = AdapterCutter(ads, times=c["times"], action=act, index=False)
    fwd, fm = p.match_and_trim(SequenceRecord("r", r, q))
    rev, rm = p.match_and_trim(SequenceRecord("r", refops.revcomp(r), q[::-1]))
    use = bool(rm) and sum(m.score for m in rm) > sum(m.score for m in fm)
    exp = rev if use else fwd
    print("stated rule:", "rc" if use else "given", exp.sequence)
    return 0 if (out.sequence, out.name) == (exp.sequence, "r rc" if use else "r") else 1


def _replay_paired(c):
    """One pair through PairedReverseComplementer vs. the plain cutters on the pair as given and swapped."""
    from cutadapt.info import ModificationInfo
    from cutadapt.modifiers import AdapterCutter, PairedReverseComplementer
    from dnaio import SequenceRecord

    combo = [next(i for i, (_, s_) in enumerate(MENU) if s_ == spec) for spec in c["adapters1"]]
    specs = [MENU[i] for i in combo]
    ads1 = make(specs, c["rate"], c["min_overlap"])
    ads2 = make([MENU[(i + 3) % len(MENU)] for i in combo], c["rate"], c["min_overlap"])
    act = None if c["action"] == "none" else c["action"]
    which = c["cutters"]
    mk = lambda ads: AdapterCutter(ads, times=1, action=act, index=False)
    c1, c2 = (mk(ads1) if which in ("both", "r1") else None), (mk(ads2) if which in ("both", "r2") else None)
    p1, p2 = (mk(ads1) if c1 else None), (mk(ads2) if c2 else None)
    a, b = c["r1"], c["r2"]
    qa, qb = uq(len(a)), uq(len(b), 10)
    o1, o2 = PairedReverseComplementer(c1, c2)(SequenceRecord("r", a, qa), SequenceRecord("r", b, qb),
                                               ModificationInfo(SequenceRecord("r", a, qa)), ModificationInfo(SequenceRecord("r", b, qb)))

    def mt(p, seq, q):
        return (SequenceRecord("r", seq, q), []) if p is None else p.match_and_trim(SequenceRecord("r", seq, q))

    (f1, m1), (f2, m2), (s1, n1), (s2, n2) = mt(p1, a, qa), mt(p2, b, qb), mt(p1, b, qb), mt(p2, a, qa)
    use = bool(n1 or n2) and sum(m.score for m in n1 + n2) > sum(m.score for m in m1 + m2)
    e1, e2 = (s1, s2) if use else (f1, f2)
    print("implementation:", o1.name, o1.sequence, o2.sequence, " stated rule:", "swapped" if use else "as given", e1.sequence, e2.sequence)
    return 0 if (o1.sequence, o2.sequence, o1.name) == (e1.sequence, e2.sequence, "r rc" if use else "r") else 1
