"""C17 - the info file locates every match and reconstructs every read.

Enumeration: pre-adapter modifications (subsets of -u +/-, -q with 5'/3' cutoffs, --nextseq-trim) x adapter sets
(incl. linked) x --times 1-3 x --revcomp x discarding filters, through cutadapt.cli.main, on reads with
position-unique qualities.  Every row of the info file is checked against the statement; field 6 is re-aligned
to the named adapter by the C reference (vf.refalign)."""
import itertools
import json
import os

from .. import clih, common, refalign, refops
from .c03 import uq

PROP = "C17"
MOD = "vf.checks.c17"

PRE = [["-u", "3"], ["-u", "-2"], ["-q", "10,10"], ["-q", "10"], ["--nextseq-trim", "10"]]
ADSETS = [
    [("-a", "a1=ACGTACGG")],
    [("-g", "g1=TTGCAGCA")],
    [("-a", "a1=ACGTACGG"), ("-g", "g1=TTGCAGCA")],
    [("-b", "b1=GGATCCAA")],
    [("-a", "a1=ACGTACGG"), ("-a", "a2=CCGGTTAA"), ("-g", "g1=TTGCAGCA")],
    [("-a", "l1=^TTGCA...ACGTACGG")],
    [("-g", "l2=TTGCAGCA...CCGGTTAA"), ("-a", "a1=ACGTACGG")],
    [("-a", "w1=ACGNNCGG")],
    [("-g", "p1=^TTGCAGCA"), ("-a", "s1=ACGTACGG$")],
    [("-a", "l3=TTGCAGCA...CCGGTTAA"), ("-a", "a1=ACGTACGG")],
    # an 'anywhere' adapter that is found at the very start of the searched sequence (so it removes the 5' side) with a later round
    [("-b", "b1=GGATCCAA"), ("-a", "a1=ACGTACGG")],
    # many anchored adapters of one kind (grouped into an index) next to a single anchored adapter of the other kind
    [("-g", "q1=^CCTTAAGG"), ("-g", "q2=^GGCCTTAA"), ("-g", "q3=^TATATCGC"), ("-g", "q4=^CGCGATAT"), ("-a", "s1=ACGTACGG$")],
]
ADSEQ = {"q1": "CCTTAAGG", "q2": "GGCCTTAA", "q3": "TATATCGC", "q4": "CGCGATAT", "a1": "ACGTACGG", "g1": "TTGCAGCA", "b1": "GGATCCAA", "a2": "CCGGTTAA", "w1": "ACGNNCGG", "p1": "TTGCAGCA", "s1": "ACGTACGG",
         "l1;1": "TTGCA", "l1;2": "ACGTACGG", "l2;1": "TTGCAGCA", "l2;2": "CCGGTTAA", "l3;1": "TTGCAGCA", "l3;2": "CCGGTTAA"}
RATE = 0.15


def corpus():
    A1, G1, B1, A2 = "ACGTACGG", "TTGCAGCA", "GGATCCAA", "CCGGTTAA"
    ins = ["CATCATGTGT", "GGGTTTACAC", "TATATA", "C", ""]
    seqs = []
    for i in ins:
        seqs += [i, i + A1, i + A1 + "TTT", G1 + i, "AC" + G1 + i, G1 + i + A1, G1 + i + A2 + "G" + A1, i + B1, B1 + i, i + A1[:5],
                 G1[3:] + i, i + "ACGTTCGG" + "AA", i + A1 + A1, G1 + G1 + i + A1, "TTGCA" + i + A1, i + A2 + A1, i + "ACGAACGG",
                 refops.revcomp(i + A1), refops.revcomp(G1 + i + A1), i + A1 + "GGGGGG", "GGGG" + i + A1,
                 # a linked adapter with both parts around a further adapter (later round inside the linked remainder)
                 G1 + i + A1 + "TT" + A2, G1 + G1 + i + "CA" + A2, "TTGCA" + G1 + i + A1, "TTGCA" + i + A2 + "TC" + A1,
                 # only the 3' part of a linked adapter with an optional 5' part, another adapter left of it
                 i + A1 + "TT" + A2, "CC" + i + A1 + "GT" + A2 + "AAGG",
                 # the anywhere adapter at the start of what is searched (as given, and after -u 3), another adapter later
                 B1 + i + A1 + "GG", "CAT" + B1 + i + A1 + "GGT", B1[2:] + i + A1,
                 # partial occurrences with a deletion: 7 adapter bases aligned (1 error allowed), only 6 read bases removed
                 i + "ACGACG", "TGCGCA" + i, i + "ACGTACG", "GCAGCA" + i + "ACGTCGG"]
    seqs = list(dict.fromkeys(seqs))
    recs = []
    for k, s in enumerate(seqs):
        n = len(s)
        low = set()
        if k % 3 == 0:
            low |= set(range(max(0, n - 3), n))
        if k % 4 == 1:
            low |= {0, 1}
        low = set(sorted(low)[:5])
        recs.append((f"r{k}", s, uq(n, low)))
    return recs


def scenarios(tier):
    S = []
    pre_sets = [[]] + [[p] for p in PRE] + [[PRE[0], PRE[1]], [PRE[0], PRE[2]], [PRE[1], PRE[4]], [PRE[0], PRE[1], PRE[2]],
                                           [PRE[0], PRE[3], PRE[4]]]
    if tier == "thorough":
        pre_sets = []
        for mask in range(1 << len(PRE)):
            sub = [PRE[i] for i in range(len(PRE)) if mask >> i & 1]
            if PRE[2] in sub and PRE[3] in sub:
                continue  # two -q options: the last one wins, nothing to learn
            pre_sets.append(sub)
    for pre in pre_sets:
        for ai in range(len(ADSETS)):
            for times in (1, 2, 3):
                for rc in (False, True):
                    for filt in ([], ["-m", "12"], ["--discard-trimmed"], ["--discard-untrimmed", "-M", "14"]):
                        if tier == "quick" and filt and (times == 3 or (ai % 3 != 0) or ai == 10):
                            continue
                        S.append(dict(pre=pre, ai=ai, times=times, rc=rc, filt=filt))
    # paired-end: the info file describes R1 only, whatever is done to R2 (R2-only modifiers and adapters included)
    for pre in ([], [PRE[0]], [PRE[2]], [PRE[1], PRE[4]]):
        for ai in (None, 0, 2, 5, 9):
            for times in (1, 2):
                for r2 in R2OPTS:
                    if ai is None and "-A" not in r2:
                        continue
                    if tier == "quick" and times == 2 and ai in (0, 5):
                        continue
                    S.append(dict(pre=pre, ai=ai, times=times, rc=False, filt=[], paired=r2))
    # FASTA input: the same rows without qualities
    for pre in ([], [PRE[0]], [PRE[1]], [PRE[0], PRE[1]]):
        for ai in (0, 2, 6, 10):
            for times in (1, 2):
                S.append(dict(pre=pre, ai=ai, times=times, rc=(ai == 2), filt=[], fasta=True))
    # paired-end --revcomp: a pair may be swapped; the R1 rows then describe the read that came from the R2 file
    for ai in (0, 2, 4):
        for times in (1, 2):
            for r2 in ([], ["-A", "a1=ACGTACGG"]):
                S.append(dict(pre=[], ai=ai, times=times, rc=True, filt=[], paired=r2))
    return S


R2OPTS = [[], ["-U", "3"], ["-A", "a1=ACGTACGG"], ["-U", "2", "-A", "a1=ACGTACGG"], ["-U", "-4", "-G", "g1=TTGCAGCA", "-Q", "10,10"]]


def mates(recs):
    n = len(recs)
    return [(r[0], recs[(k * 5 + 3) % n][1], uq(len(recs[(k * 5 + 3) % n][1]))) for k, r in enumerate(recs)]


def shards(tier):
    n = 32
    total = len(scenarios(tier))
    return [dict(tier=tier, idx=list(range(i, total, n))) for i in range(n)]


def run_shard(d):
    S = scenarios(d["tier"])
    recs = corpus()
    byname = {r[0]: r for r in recs}
    wd = clih.fresh_dir("c17")
    inp = os.path.join(wd, "in.fq")
    clih.write_text(inp, clih.fastq_text(recs))
    out = os.path.join(wd, "o.fq")
    inpfa = os.path.join(wd, "in.fa")
    clih.write_text(inpfa, clih.fasta_text([(n, s_, None) for n, s_, q in recs if s_]))
    inp2 = os.path.join(wd, "in2.fq")
    clih.write_text(inp2, clih.fastq_text(mates(recs)))
    out2 = os.path.join(wd, "o2.fq")
    infop = os.path.join(wd, "info.tsv")
    res = dict(evals=0, runs=0, nontrivial=0, rows=0, viol=common.Viols(cap=3), samples=[])
    V = res["viol"]
    for i in d["idx"]:
        sc = S[i]
        argv = ["-e", repr(RATE), "-O", "4", "--times", str(sc["times"])]
        for p in sc["pre"]:
            argv += p
        for f, s in (ADSETS[sc["ai"]] if sc["ai"] is not None else []):
            argv += [f, s]
        if sc["rc"]:
            argv += ["--revcomp"]
        argv += sc["filt"]
        if sc.get("fasta"):
            r = clih.run_cli(argv + ["--info-file", infop, "-o", os.path.join(wd, "o.fa"), inpfa])
        elif sc.get("paired") is not None:
            argv += sc["paired"]
            r = clih.run_cli(argv + ["--info-file", infop, "-o", out, "-p", out2, inp, inp2])
        else:
            r = clih.run_cli(argv + ["--info-file", infop, "-o", out, inp])
        res["runs"] += 1
        case = dict(argv=argv)
        if r.exit != 0:
            V.append(("cli", f"cutadapt failed: {r.exit} {r.exc} {r.errors()[:1]}", case))
            continue
        with open(infop) as fh:
            rows = [ln.rstrip("\n").split("\t") for ln in fh if ln.strip("\n") != ""]
        res["rows"] += len(rows)
        if sc.get("paired") is None and not sc.get("fasta") and not sc["rc"]:
            _expected_matches(V, res, case, rows, recs, sc)
        pre_kinds = _pre_signature(sc["pre"])
        _judge(V, res, case, rows, recs, byname, sc, pre_kinds, mates(recs) if sc.get("paired") is not None else None)
        if not res["samples"] and sc["times"] == 2 and sc["pre"]:
            res["samples"].append(dict(argv=argv, first_rows=rows[:3]))
    clih.rmtree(wd)
    return res


_ADS = {}


def _expected_matches(V, res, case, rows, recs, sc):
    """'Locates every match': the adapters named in a read's rows, in order, are those the stated rules apply to the read after
    the pre-adapter modifications (reference pipeline; the adapters are built once per set with the parser)."""
    from cutadapt.parser import make_adapters_from_specifications

    from .. import refpipe

    ai = sc["ai"]
    if ai not in _ADS:
        tmap = {"-a": "back", "-g": "front", "-b": "anywhere"}
        _ADS[ai] = make_adapters_from_specifications([(tmap[f], s_) for f, s_ in ADSETS[ai]],
                                                     dict(max_errors=RATE, min_overlap=4, read_wildcards=False, adapter_wildcards=True, indels=True))
    opts = dict(times=sc["times"])
    flat = [x for p in sc["pre"] for x in p]
    cuts = [int(flat[i + 1]) for i in range(len(flat) - 1) if flat[i] == "-u"]
    if cuts:
        opts["cut"] = cuts
    for i in range(len(flat) - 1):
        if flat[i] == "-q":
            opts["q"] = flat[i + 1]
        if flat[i] == "--nextseq-trim":
            opts["nextseq"] = int(flat[i + 1])
    model = refpipe.Model(opts, _ADS[ai], [], paired=False)
    got = {}
    for row in rows:
        names = got.setdefault(row[0], [])
        if row[1] != "-1":
            base = row[7].split(";")[0]
            if not (row[7].endswith(";2") and names and names[-1] == base):
                names.append(base)
    for name, seq, qual in recs:
        rec = refpipe.Rec(name, seq, qual)
        model.run_steps(rec, 0, ["cut", "nextseq", "quality", "adapter"])
        exp = [m.name for m in rec.matches]
        if got.get(name, []) != exp:
            V.append(("matches", f"the rows of the read name the adapters {got.get(name, [])}, the stated rules apply {exp} "
                      "(a match that is not in the info file, or a row for a match that was not applied)", dict(case, read=[name, seq, qual])))
            return


def _pre_signature(pre):
    flat = [x for p in pre for x in p]
    five = ("-u" in flat and any(flat[i] == "-u" and int(flat[i + 1]) > 0 for i in range(len(flat) - 1))) or "10,10" in flat
    return "5p" if five else ("3p" if pre else "none")


def _judge(V, res, case, rows, recs, byname, sc, pre_kind, mate_recs=None):
    mate_of = {r[0]: r for r in mate_recs} if mate_recs else {}
    groups = {}
    order = []
    for row in rows:
        nm = row[0]
        base = nm[:-3] if nm.endswith(" rc") else nm
        if base not in groups:
            order.append(base)
        groups.setdefault(base, []).append(row)
    sig = f"pre-{pre_kind}" + (":paired" if sc.get("paired") is not None else "") + (":fasta" if sc.get("fasta") else "")
    for name, seq, qual in recs:
        if sc.get("fasta"):
            if not seq:
                continue  # the FASTA input omits empty reads
            qual = ""
        res["evals"] += 1
        g = groups.get(name)
        if not g:
            V.append((f"{sig}:missing-row", "an input read has no row in the info file", dict(case, read=name)))
            continue
        if any(r[1] == "-1" for r in g):
            if len(g) != 1:
                V.append((f"{sig}:rows", "a read without match must have exactly one row", dict(case, read=name, rows=g)))
            continue
        res["nontrivial"] += 1
        if len(g) > sc["times"] * 2:
            V.append((f"{sig}:rows", "more rows than rounds allow", dict(case, read=name, rows=g)))
            continue
        rc_flag = g[0][11] if len(g[0]) > 11 else ""
        cur_s, cur_q = seq, qual
        swapped = False
        if rc_flag == "1" and sc.get("paired") is not None:
            # paired-end: "reverse complementing is done by swapping R1 and R2": the R1 rows describe the read from the R2 file
            swapped = True
            cur_s, cur_q = mate_of[name][1], mate_of[name][2]
        elif rc_flag == "1":
            cur_s, cur_q = refops.revcomp(seq), qual[::-1]
        nv = len(V)
        if sc["rc"] and rc_flag not in ("0", "1"):
            V.append((f"{sig}:rcflag", "--revcomp given but the reverse-complement column is empty", dict(case, read=name, row=g[0])))
            continue
        first = True
        prev_linked_front = None
        for ri_, row in enumerate(g):
            if len(row) < 11:
                V.append((f"{sig}:fields", "match row has fewer than 11 fields", dict(case, read=name, row=row)))
                break
            errors, start, end = int(row[1]), int(row[2]), int(row[3])
            left, mid, right, aname, ql, qm, qr = row[4], row[5], row[6], row[7], row[8], row[9], row[10]
            whole = left + mid + right
            if whole != cur_s or ql + qm + qr != cur_q:
                what = ("the three sequence/quality fields do not concatenate to the input read" if first else
                        "the three sequence/quality fields do not concatenate to what the previous round left")
                V.append((f"{sig}:concat{'1' if first else 'n'}", what, dict(case, read=[name, seq, qual], row=row, expected=[cur_s, cur_q])))
                break
            if not (len(left) == start and len(left) + len(mid) == end and (sc.get("fasta") or (len(ql) == start and len(qm) == len(mid)))):
                V.append((f"{sig}:coords", "fields are not split at the reported start/end coordinates", dict(case, read=[name, seq, qual], row=row)))
                break
            aseq = ADSEQ.get(aname)
            if aseq is None:
                V.append((f"{sig}:name", f"unknown adapter name {aname!r} in column 8", dict(case, row=row)))
                break
            # the middle field must be alignable to (a part of) the named adapter with the reported number of errors
            if not _alignable(aseq, mid, errors):
                V.append((f"{sig}:aligned-stretch", f"the middle field cannot be aligned to adapter {aname} ({aseq}) with {errors} errors",
                          dict(case, read=[name, seq, qual], row=row)))
                break
            # what this round leaves
            if aname.endswith(";1"):
                cur_s, cur_q = cur_s[end:], cur_q[end:]
            elif aname.endswith(";2"):
                cur_s, cur_q = cur_s[:start], cur_q[:start]
            else:
                five = aname.startswith(("g", "p", "q")) or (aname.startswith("b") and start == 0)
                if aname.startswith("b") and start != 0 and ri_ + 1 < len(g) and len(g[ri_ + 1]) >= 7:
                    # an anywhere adapter removes the 5' side iff it starts at the first base of the SEARCHED sequence, which is not
                    # column 0 when -u/-q removed bases before: take the side that the next row continues with (if it continues
                    # with neither, that row is reported)
                    nxt = g[ri_ + 1][4] + g[ri_ + 1][5] + g[ri_ + 1][6]
                    five = nxt == cur_s[end:] and nxt != cur_s[:start]
                if five:
                    cur_s, cur_q = cur_s[end:], cur_q[end:]
                else:
                    cur_s, cur_q = cur_s[:start], cur_q[:start]
            first = False
        if swapped and len(V) > nv:
            # one signature for everything that is wrong with the rows of a swapped pair (see known_findings.txt)
            last = V.pop()
            V.append(("paired-revcomp:swapped-row", "paired --revcomp, pair swapped: " + last[1], last[2]))


def _alignable(aseq, mid, errors):
    """Is there an interval of the adapter whose edit distance (adapter N = wildcard) to the middle field is exactly the
    reported number of errors, within the error tolerance for that interval?"""
    m = len(aseq)
    for a in range(0, m + 1):
        for b in range(a + 1, m + 1):
            if refalign.distance(aseq[a:b], mid, True, False, True) == errors:
                eff = (b - a) - aseq[a:b].count("N")
                if errors <= RATE * eff:
                    return True
    return False


def run(tier):
    R = common.Result(PROP, tier, "exploration")
    refalign.build()
    sh = shards(tier)
    out = common.pmap(MOD, "run_shard", sh)
    tot = {}
    for r in out:
        for k, v in r.items():
            if isinstance(v, int):
                tot[k] = tot.get(k, 0) + v
        for s in r["samples"]:
            R.sample(s)
        for sig, what, case in r["viol"]:
            R.violation(sig, what, case)
    R.counters = tot
    R.coverage["scenarios"] = len(scenarios(tier))
    R.coverage["corpus_reads"] = len(corpus())
    R.assumptions = ["which adapter is applied in which round is C09's business; here each row must be self-consistent and consistent "
                     "with the input read / the previous round's remainder", "field 6 is re-aligned to the named adapter by the C reference"]
    return R.finish(tot.get("evals", 0), tot.get("nontrivial", 0),
                    "scenarios = 11 sets of pre-adapter modifications (subsets of -u 3, -u -2, -q 10,10, -q 10, --nextseq-trim 10) x 12 adapter "
                    "sets (3', 5', anywhere, anchored, wildcard, two linked) x --times {1,2,3} x --revcomp on/off x filters that discard "
                    "reads; plus paired-end runs (R2-only cuts/adapters/quality trimming, adapters on R1, R2 or both: the rows describe R1); "
                    "corpus of ~100 reads with position-unique qualities; every info-file row is checked; non-trivial = read has a match row",
                    True)


def replay(path):
    with open(path) as f:
        v = json.load(f)
    print(json.dumps(v, indent=1)[:3000])
    c = v["case"]
    if "read" not in c or not isinstance(c["read"], list):
        return 1
    if "-U" in c["argv"] or "-A" in c["argv"] or "-G" in c["argv"]:
        import sys
        return common.replay_by_rerun(sys.modules[__name__], PROP, path)
    wd = clih.fresh_dir("c17r")
    inp = os.path.join(wd, "in.fq")
    clih.write_text(inp, clih.fastq_text([tuple(c["read"])]))
    infop = os.path.join(wd, "info.tsv")
    r = clih.run_cli(c["argv"] + ["--info-file", infop, "-o", os.path.join(wd, "o.fq"), inp])
    print("exit", r.exit)
    print(open(infop).read())
    import sys
    return common.replay_by_rerun(sys.modules[__name__], PROP, path)
