"""C19 - results do not depend on compression, file layout or how a format is requested.

The finite product input container x layout x output container x output name x output layout x cores x input
format x option set is enumerated completely through cutadapt.cli.main (two cores: virtual scheduler, default
schedule); every output is decompressed and compared with the plain / plain / one-core run; the output format
must be the one the name (before the compression suffix) or --fasta requests, else the input format."""
import bz2
import gzip
import itertools
import json
import lzma
import os
import subprocess

from .. import clih, common, mcharness, vmp

PROP = "C19"
MOD = "vf.checks.c19"

IN_CONT = ["plain", "gz", "gzmulti", "bz2", "xz", "zst"]
LAYOUTS = ["single", "paired", "interleaved"]
OUT_CONT = ["", ".gz", ".bz2", ".xz", ".zst"]
OUT_EXT = [".fastq", ".fq", ".fasta", ".fa", ""]
OPTSETS = [["-a", "ad=ACGTACGG"], ["-a", "ad=ACGTACGG", "-m", "5", "--trim-n"], ["-q", "10", "-a", "ad=ACGTACGG"]]


def reads():
    seqs = ["CATCATGTGTACGTACGGTT", "GGGTTTACAC", "NNTATATANN", "ACGTACGG", "TTGCAGCACATCATGTGTACGTA", "AC", "GATTACAGATTACAGATTACA",
            "CCCCCCCCACGTACG", "TGCATGCATGCATGCATGCA", "AAAACCCCGGGGTTTT", "ACGTACGGACGTACGG", "NACGTN", "GGCCAATT"]
    r1 = [(f"r{i} c{i}", s, "".join("I5#?"[(i + j) % 4] for j in range(len(s)))) for i, s in enumerate(seqs)]
    r2 = [(f"r{i} d{i}", s[::-1] + "ACGTACGG"[: i % 9], "".join("I?5"[(i + j) % 3] for j in range(len(s) + min(8, i % 9)))) for i, s in enumerate(seqs)]
    return r1, r2


def compress(data, cont, path):
    if cont == "plain":
        raw = data
    elif cont == "gz":
        raw = gzip.compress(data, mtime=0)
    elif cont == "gzmulti":
        cut = data.find(b"\n", len(data) // 2)
        # split at a record boundary: every record starts a line with @ or >; use half the lines (multiple of 4 lines for FASTQ)
        lines = data.split(b"\n")
        k = (len(lines) // 2) // 4 * 4 if data[:1] == b"@" else (len(lines) // 2) // 2 * 2
        a, b = b"\n".join(lines[:k]) + (b"\n" if k else b""), b"\n".join(lines[k:])
        raw = gzip.compress(a, mtime=0) + gzip.compress(b, mtime=0)
    elif cont == "bz2":
        raw = bz2.compress(data)
    elif cont == "xz":
        raw = lzma.compress(data)
    elif cont == "zst":
        from xopen import xopen

        with xopen(path, "wb") as f:
            f.write(data)
        return
    with open(path, "wb") as f:
        f.write(raw)


SUFFIX = dict(plain="", gz=".gz", gzmulti=".gz", bz2=".bz2", xz=".xz", zst=".zst")


def write_inputs(wd, fmt, layout, cont):
    r1, r2 = reads()
    if fmt in ("fasta", "fasta-wrapped"):
        r1 = [(n, s, None) for n, s, q in r1 if s]
        r2 = [(n, s, None) for n, s, q in r2 if s]
        text = clih.fasta_text
        if fmt == "fasta-wrapped":
            # the same records in another valid FASTA layout: a leading comment line, a comment line between records, sequences
            # wrapped at 7 characters
            def text(recs):
                out = ["# written by the harness"]
                for k, (n, s_, _) in enumerate(recs):
                    if k == 3:
                        out.append("# another comment")
                    out.append(">" + n)
                    out += [s_[j:j + 7] for j in range(0, len(s_), 7)]
                return "\n".join(out) + "\n"
        ext = ".fa"
    else:
        text = clih.fastq_text
        ext = ".fq"
    paths = []
    if layout == "single":
        items = [("in" + ext, text(r1))]
    elif layout == "paired":
        items = [("in1" + ext, text(r1)), ("in2" + ext, text(r2))]
    else:
        items = [("in" + ext, text([x for p in zip(r1, r2) for x in p]))]
    for name, t in items:
        p = os.path.join(wd, name + SUFFIX[cont])
        compress(t.encode(), cont, p)
        paths.append(p)
    return paths


def configurations(tier):
    C = []
    for fmt in ("fastq", "fasta"):
        for oi, opts in enumerate(OPTSETS):
            if fmt == "fasta" and "-q" in opts:
                continue
            for layout in LAYOUTS:
                for out_il in ((False, True) if layout != "single" else (False,)):
                    for ic in IN_CONT:
                        for oc in OUT_CONT:
                            for ext in OUT_EXT:
                                if fmt == "fasta" and ext in (".fastq", ".fq"):
                                    continue  # FASTQ cannot be written without qualities
                                for cores in (1, 2):
                                    C.append(dict(fmt=fmt, oi=oi, layout=layout, out_il=out_il, ic=ic, oc=oc, ext=ext, cores=cores))
    # FASTA in another valid layout (comment lines, wrapped sequences): the records of the standard layout must come out
    for layout in LAYOUTS:
        for ic in ("plain", "gz"):
            for ext in ("", ".fa"):
                for cores in (1, 2):
                    C.append(dict(fmt="fasta-wrapped", oi=0, layout=layout, out_il=False, ic=ic, oc="", ext=ext, cores=cores))
    return C


def shards(tier):
    C = configurations(tier)
    n = 48
    sh = [dict(tier=tier, kind="files", idx=list(range(i, len(C), n))) for i in range(n)]
    sh.append(dict(tier=tier, kind="stdout"))
    sh.append(dict(tier=tier, kind="two-outputs"))
    sh.append(dict(tier=tier, kind="filter-layouts"))
    return sh


_REF = {}


def records_of(path):
    data = clih.read_bytes(path)
    fmt = clih.detect_format(data)
    if fmt == "fastq":
        return fmt, clih.parse_fastq(data, strict=False)
    if fmt == "fasta":
        return fmt, clih.parse_fasta(data)
    return fmt, []


def run_config(c, wd, use_cache=True):
    """Run one configuration; returns (exit, {role: (format, records)})."""
    ind, outd = os.path.join(wd, "in"), os.path.join(wd, "out")
    for d in (ind, outd):
        os.makedirs(d, exist_ok=True)
        mcharness.clear_dir(d)
    paths = write_inputs(ind, c["fmt"], c["layout"], c["ic"])
    argv = list(OPTSETS[c["oi"]])
    stem = "out"
    o1 = os.path.join(outd, stem + "1" + c["ext"] + c["oc"])
    o2 = os.path.join(outd, stem + "2" + c["ext"] + c["oc"])
    if c["layout"] == "single":
        argv += ["-o", o1]
    elif c["out_il"]:
        argv += ["--interleaved", "-o", o1]
    else:
        argv += ["-o", o1, "-p", o2]
        if c["layout"] == "interleaved":
            argv += ["--interleaved"]
    if c["layout"] == "paired" and c["out_il"]:
        pass  # --interleaved with two inputs means interleaved output only
    argv += ["-A", "bd=ACGTACGG"] if c["layout"] != "single" else []
    if c["cores"] > 1:
        argv = ["-j", str(c["cores"]), "--buffer-size", "400"] + argv
    argv += paths
    if c["cores"] == 1:
        r = clih.run_cli(argv)
        ex, errs = r.exit, (r.errors()[:1] or [r.exc])
    else:
        sched, val, exc = vmp.run(lambda: clih.run_cli(argv), policy="fair")
        if sched.deadlock:
            return "DEADLOCK", {}, argv, [sched.deadlock]
        ex = val.exit if val is not None else "EXC"
        errs = (val.errors()[:1] or [val.exc]) if val is not None else [repr(exc)]
    out = {}
    if ex == 0:
        try:
            if os.path.exists(o1):
                out["o1"] = records_of(o1)
            if os.path.exists(o2):
                out["o2"] = records_of(o2)
        except Exception as e:  # noqa
            return "UNREADABLE", {}, argv, [f"{type(e).__name__}: {e}"]
    return ex, out, argv, errs


def reference(c, wd):
    fmt = "fasta" if c["fmt"] == "fasta-wrapped" else c["fmt"]
    key = (fmt, c["oi"], c["layout"], c["out_il"])
    if key not in _REF:
        base = dict(c, fmt=fmt, ic="plain", oc="", ext="", cores=1)
        _REF[key] = run_config(base, wd)
    return _REF[key]


def norm(recs, fasta):
    return [(n, s) for n, s, q in recs] if fasta else [tuple(r) for r in recs]


def run_shard(d):
    res = dict(evals=0, nontrivial=0, viol=common.Viols(cap=3), samples=[], known=0)
    V = res["viol"]
    wd = clih.fresh_dir("c19")
    if d["kind"] == "stdout":
        do_stdout(wd, res)
        clih.rmtree(wd)
        return res
    if d["kind"] == "two-outputs":
        do_two_outputs(wd, res)
        clih.rmtree(wd)
        return res
    if d["kind"] == "filter-layouts":
        do_filter_layouts(wd, res)
        clih.rmtree(wd)
        return res
    C = configurations(d["tier"])
    for i in d["idx"]:
        c = C[i]
        res["evals"] += 1
        rex, rout, rargv, rerr = reference(c, wd)
        case = dict(config=c)
        if rex != 0:
            V.append(("reference-failed", f"plain/plain/one-core run failed: {rex} {rerr}", dict(case, argv=[a for a in rargv if not a.startswith('/')])))
            continue
        ex, out, argv, errs = run_config(c, wd)
        shown = [a if not a.startswith("/") else os.path.basename(a) for a in argv]
        if (c["ic"], c["oc"], c["ext"], c["cores"], c["fmt"]) != ("plain", "", "", 1, c["fmt"].split("-")[0]):
            res["nontrivial"] += 1
        sig_cfg = f"{c['fmt']}:{c['layout']}:{'j2' if c['cores'] > 1 else 'j1'}"
        if ex != 0:
            V.append((f"failed:{sig_cfg}", f"run failed ({ex}: {str(errs[0])[:150]}) although the plain / one-core run of the same data succeeds",
                      dict(case, argv=shown)))
            continue
        want_fmt = "fasta" if c["ext"] in (".fasta", ".fa") else ("fastq" if c["ext"] in (".fastq", ".fq") else c["fmt"].split("-")[0])
        for role in rout:
            if role not in out:
                V.append((f"missing:{sig_cfg}", f"output file {role} missing", dict(case, argv=shown)))
                continue
            fmt, recs = out[role]
            rfmt, rrecs = rout[role]
            if recs and fmt != want_fmt:
                V.append((f"format:{c['ext'] or 'noext'}{c['oc']}:{'j2' if c['cores'] > 1 else 'j1'}",
                          f"output format is {fmt} but the file name / input format asks for {want_fmt}", dict(case, argv=shown)))
                continue
            fasta = want_fmt == "fasta"
            if norm(recs, fasta) != norm(rrecs, fasta):
                a, b = norm(recs, fasta), norm(rrecs, fasta)
                k = next((j for j in range(min(len(a), len(b))) if a[j] != b[j]), min(len(a), len(b)))
                V.append((f"records:{sig_cfg}", f"records differ from the plain / one-core run at record {k}: "
                          f"{a[k] if k < len(a) else None} vs {b[k] if k < len(b) else None}", dict(case, argv=shown)))
        if not res["samples"] and c["ic"] == "xz" and c["oc"] == ".zst":
            res["samples"].append(dict(config=c, argv=shown))
    # FASTA input gives the same names and sequences as FASTQ input when no quality-based option is used
    if d["idx"] and d["idx"][0] == 0:
        for oi in (0, 1):
            for layout in LAYOUTS:
                cq = dict(fmt="fastq", oi=oi, layout=layout, out_il=False, ic="plain", oc="", ext="", cores=1)
                ca = dict(cq, fmt="fasta")
                _, oq, _, _ = reference(cq, wd)
                _, oa, _, _ = reference(ca, wd)
                res["evals"] += 1
                for role in oq:
                    q = [(n, s) for n, s, _ in oq[role][1] if True]
                    a = [(n, s) for n, s, _ in oa.get(role, ("", []))[1]]
                    # the FASTA corpus omits empty input reads
                    r1, r2 = reads()
                    empty_ids = {n.split()[0] for n, s, _ in (r1 if role == "o1" else r2) if not s}
                    q = [x for x in q if x[0].split()[0] not in empty_ids]
                    if oi == 1:
                        continue  # -m filters pairs/reads differently once empty reads are missing: compared for option set 0 only
                    if q != a:
                        V.append(("fasta-vs-fastq", "FASTA input gives other names/sequences than FASTQ input", dict(option_set=OPTSETS[oi], layout=layout)))
    if d["idx"] and d["idx"][0] == 1:
        do_info_fasta_vs_fastq(wd, res)
    clih.rmtree(wd)
    return res


def do_info_fasta_vs_fastq(wd, res):
    """The info file is an output, too: its name, coordinate and sequence columns must not depend on whether the input had qualities."""
    V = res["viol"]
    r1, _ = reads()
    r1 = [x for x in r1 if x[1]]
    fq, fa = os.path.join(wd, "i.fq"), os.path.join(wd, "i.fa")
    clih.write_text(fq, clih.fastq_text(r1))
    clih.write_text(fa, clih.fasta_text([(n, s_, None) for n, s_, q in r1]))
    for extra in ([], ["-u", "-4"], ["-u", "3"], ["-u", "2", "-u", "-3", "--times", "2", "-g", "gg=CATCATG"]):
        rows = {}
        for fmt, path in (("fastq", fq), ("fasta", fa)):
            info = os.path.join(wd, f"info.{fmt}.tsv")
            r = clih.run_cli(extra + ["-a", "ad=ACGTACGG", "--info-file", info, "-o", os.path.join(wd, "io." + ("fq" if fmt == "fastq" else "fa")), path])
            res["evals"] += 1
            res["nontrivial"] += 1
            if r.exit != 0:
                V.append(("info:failed", f"run failed: {r.exit} {r.exc} {r.errors()[:1]}", dict(options=extra, format=fmt)))
                rows = None
                break
            with open(info) as fh:
                rows[fmt] = [ln.rstrip("\n").split("\t") for ln in fh]
        if not rows:
            continue
        a = [(x[:8] if len(x) > 4 else x[:3]) for x in rows["fastq"]]
        b = [(x[:8] if len(x) > 4 else x[:3]) for x in rows["fasta"]]
        if a != b:
            k = next((i for i in range(min(len(a), len(b))) if a[i] != b[i]), min(len(a), len(b)))
            V.append(("info:fasta-vs-fastq", "info file: name / coordinate / sequence columns differ between FASTA and FASTQ input of the same reads",
                      dict(options=extra, fastq_row=a[k] if k < len(a) else None, fasta_row=b[k] if k < len(b) else None)))


def do_two_outputs(wd, res):
    """Several record outputs in one run: each file's format follows its OWN name (or the input format)."""
    V = res["viol"]
    ind, outd = os.path.join(wd, "in"), os.path.join(wd, "out")
    os.makedirs(ind, exist_ok=True)
    os.makedirs(outd, exist_ok=True)
    paths = write_inputs(ind, "fastq", "single", "plain")
    ref = None
    for cores in (1, 2):
        for e1, e2, e3 in itertools.product((".fastq", ".fasta", ""), repeat=3):
            for oc in ("", ".gz"):
                mcharness.clear_dir(outd)
                names = dict(short=os.path.join(outd, "short" + e1 + oc), untr=os.path.join(outd, "untr" + e2 + oc),
                             main=os.path.join(outd, "main" + e3 + oc))
                argv = (["-j", str(cores), "--buffer-size", "400"] if cores > 1 else []) + \
                    ["-a", "ad=ACGTACGG", "-m", "12", "--too-short-output", names["short"], "--untrimmed-output", names["untr"],
                     "-o", names["main"]] + paths
                res["evals"] += 1
                res["nontrivial"] += 1
                if cores == 1:
                    r = clih.run_cli(argv)
                    ex = r.exit
                else:
                    sched, val, exc = vmp.run(lambda: clih.run_cli(argv), policy="fair")
                    ex = val.exit if val is not None and not sched.deadlock else "FAILED"
                shown = [a if not a.startswith("/") else os.path.basename(a) for a in argv]
                if ex != 0:
                    V.append(("two-outputs:failed", f"run failed: {ex}", dict(argv=shown)))
                    continue
                got = {}
                for role, ext in (("short", e1), ("untr", e2), ("main", e3)):
                    fmt, recs = records_of(names[role])
                    want = "fasta" if ext == ".fasta" else "fastq"
                    if recs and fmt != want:
                        V.append((f"two-outputs:format:{role}", f"{os.path.basename(names[role])} holds {fmt} records although its name / the input "
                                  f"format asks for {want} (the other outputs are {e1 or 'noext'}, {e2 or 'noext'}, {e3 or 'noext'})", dict(argv=shown)))
                    got[role] = [(n, s) for n, s, _ in recs]
                if ref is None:
                    ref = got
                elif got != ref:
                    V.append(("two-outputs:records", "records differ between naming variants of the same run", dict(argv=shown)))


def do_filter_layouts(wd, res):
    """The layout of every output is the one its own options ask for: a filter output given as two files stays two files when
    the main output is interleaved, and the other way round; the records never depend on the layouts."""
    V = res["viol"]
    ind, outd = os.path.join(wd, "in"), os.path.join(wd, "out")
    os.makedirs(ind, exist_ok=True)
    os.makedirs(outd, exist_ok=True)
    ref = None
    for in_layout in ("paired", "interleaved"):
        paths = write_inputs(ind, "fastq", in_layout, "plain")
        for main_il in (False, True):
            for filt_il in (False, True):
                for cores in (1, 2):
                    mcharness.clear_dir(outd)
                    o1, o2 = os.path.join(outd, "m1.fq"), os.path.join(outd, "m2.fq")
                    s1, s2 = os.path.join(outd, "s1.fq"), os.path.join(outd, "s2.fq")
                    u1, u2 = os.path.join(outd, "u1.fq"), os.path.join(outd, "u2.fq")
                    argv = (["-j", "2", "--buffer-size", "500"] if cores > 1 else []) + ["-a", "ad=ACGTACGG", "-A", "bd=ACGTACGG", "-m", "12"]
                    argv += ["--interleaved", "-o", o1] if (main_il or in_layout == "interleaved") else ["-o", o1]
                    if not main_il:
                        argv += ["-p", o2]
                    argv += ["--too-short-output", s1] + ([] if filt_il else ["--too-short-paired-output", s2])
                    argv += ["--untrimmed-output", u1] + ([] if filt_il else ["--untrimmed-paired-output", u2])
                    argv += paths
                    res["evals"] += 1
                    res["nontrivial"] += 1
                    if cores == 1:
                        r = clih.run_cli(argv)
                        ex = r.exit
                    else:
                        sched, val, exc = vmp.run(lambda: clih.run_cli(argv), policy="fair")
                        ex = val.exit if val is not None and not sched.deadlock else "FAILED"
                    shown = [a if not a.startswith("/") else os.path.basename(a) for a in argv]
                    if ex != 0:
                        if ex == 2:
                            continue  # combination rejected by the command line
                        V.append(("layouts:failed", f"run failed: {ex}", dict(argv=shown)))
                        continue
                    got = {}
                    for role, a, b, il in (("main", o1, o2, main_il), ("short", s1, s2, filt_il), ("untr", u1, u2, filt_il)):
                        if not os.path.exists(a) or (not il and not os.path.exists(b)):
                            V.append((f"layouts:missing:{role}", f"output file for {role} was not created", dict(argv=shown)))
                            got[role] = None
                            continue
                        ra = records_of(a)[1]
                        if il:
                            if os.path.exists(b):
                                V.append((f"layouts:extra:{role}", "second file written although interleaved output was asked for", dict(argv=shown)))
                            got[role] = ([x[:2] for x in ra[0::2]], [x[:2] for x in ra[1::2]])
                        else:
                            got[role] = ([x[:2] for x in ra], [x[:2] for x in records_of(b)[1]])
                    if ref is None:
                        ref = got
                    elif got != ref and None not in got.values():
                        role = next(k for k in got if got[k] != ref[k])
                        V.append((f"layouts:records:{role}", f"records of the {role} output depend on the output layouts "
                                  f"({len(got[role][0])}/{len(got[role][1])} vs {len(ref[role][0])}/{len(ref[role][1])} records)", dict(argv=shown)))


def do_stdin(wd, res):
    """Input from standard input ('-'), plain and gzip-compressed, 1 and 2 cores (real processes): same records as from the file."""
    V = res["viol"]
    ind, outd = os.path.join(wd, "sin"), os.path.join(wd, "sout")
    os.makedirs(ind, exist_ok=True)
    os.makedirs(outd, exist_ok=True)
    for fmt in ("fastq", "fasta"):
        for cont in ("plain", "gz"):
            path = write_inputs(ind, fmt, "single", cont)[0]
            ext = ".fq" if fmt == "fastq" else ".fa"
            ref_out = os.path.join(outd, "ref" + ext)
            r = subprocess.run([common.PY, "-m", "cutadapt", "-a", "ad=ACGTACGG", "-o", ref_out, path], stdout=subprocess.PIPE, stderr=subprocess.PIPE)
            if r.returncode != 0:
                V.append(("stdin:reference-failed", r.stderr.decode()[-150:], dict(format=fmt, container=cont)))
                continue
            ref = records_of(ref_out)
            for cores in (1, 2):
                out = os.path.join(outd, f"o{cores}" + ext)
                res["evals"] += 1
                res["nontrivial"] += 1
                with open(path, "rb") as fh:
                    r = common.run_group([common.PY, "-m", "cutadapt", "-j", str(cores), "-a", "ad=ACGTACGG", "-o", out, "-"], timeout=60,
                                         stdin=fh)
                case = dict(format=fmt, container=cont, cores=cores, argv=["-j", str(cores), "-a", "ad=ACGTACGG", "-o", "out", "-"])
                if r.returncode != 0:
                    V.append(("stdin:failed", f"reading from standard input failed: {r.stderr.decode()[-150:]}", case))
                elif records_of(out) != ref:
                    V.append(("stdin:records", "records from standard input differ from those read from the file", case))


def do_stdout(wd, res):
    """--fasta on standard output (real processes, 1 and 2 cores)."""
    V = res["viol"]
    do_stdin(wd, res)
    ind = os.path.join(wd, "in")
    os.makedirs(ind, exist_ok=True)
    for layout in ("single", "interleaved"):
        for fmt in ("fastq", "fasta"):
            paths = write_inputs(ind, fmt, layout, "plain")
            for cores in (1, 2):
                for flag in ([], ["--fasta"]):
                    if layout == "interleaved" and flag:
                        # known on the unchanged tree? judged like every other configuration
                        pass
                    argv = ["-j", str(cores)] + flag + ["-a", "ad=ACGTACGG"] + (["--interleaved", "-A", "bd=ACGTACGG"] if layout != "single" else []) + paths
                    res["evals"] += 1
                    res["nontrivial"] += 1
                    r = common.run_group([common.PY, "-m", "cutadapt"] + argv, timeout=60)
                    shown = [a if not a.startswith("/") else os.path.basename(a) for a in argv]
                    if r.returncode != 0:
                        V.append(("stdout:failed", f"exit {r.returncode}: {r.stderr.decode()[-150:]}", dict(argv=shown)))
                        continue
                    got = clih.detect_format(r.stdout)
                    want = "fasta" if (flag or fmt == "fasta") else "fastq"
                    if got != want:
                        V.append((f"stdout:format:{layout}", f"standard output is {got}, expected {want}", dict(argv=shown)))


def run(tier):
    R = common.Result(PROP, tier, "exploration")
    sh = shards(tier)
    out = common.pmap(MOD, "run_shard", sh)
    tot = {}
    for r in out:
        for k, v in r.items():
            if isinstance(v, int):
                tot[k] = tot.get(k, 0) + v
        for s in r["samples"][:1]:
            R.sample(s)
        for sig, what, case in r["viol"]:
            R.violation(sig, what, case)
    R.counters = tot
    R.coverage["configurations"] = len(configurations(tier))
    R.assumptions = ["compressed inputs are produced with Python's gzip/bz2/lzma (zstd via xopen)", "two cores: virtual scheduler of C06, "
                     "default schedule (schedules are C06's business); stdout cases run as real processes"]
    return R.finish(tot.get("evals", 0), tot.get("nontrivial", 0),
                    "complete product: input container {plain,gz,multi-member gz,bz2,xz,zst} x layout {single,two files,interleaved} x output "
                    "layout {two files,interleaved} x output container {plain,gz,bz2,xz,zst} x output name {.fastq,.fq,.fasta,.fa,none} x cores "
                    "{1,2} x input format {FASTQ,FASTA} x 3 option sets; --fasta on stdout x layout x cores; non-trivial = configuration "
                    "differs from the plain/plain/one-core reference",
                    True)


def replay(path):
    with open(path) as f:
        v = json.load(f)
    print(json.dumps(v, indent=1)[:2500])
    c = v["case"].get("config")
    if not c:
        return 1
    wd = clih.fresh_dir("c19r")
    ex, out, argv, errs = run_config(c, wd)
    print("exit", ex, errs, {k: (f, len(r)) for k, (f, r) in out.items()})
    import sys
    return common.replay_by_rerun(sys.modules[__name__], PROP, path)
