"""C20 - per-adapter statistics describe exactly the matches that were applied.

A  single-end: JSON adapter statistics vs. a tally of the info-file rows of the same run (adapter sets of all types
   incl. linked and anywhere, --times 1-3, actions, --revcomp), with one core and with two cores under the virtual
   scheduler.
B  paired-end: adapters_read1 / adapters_read2 vs. the tallies of single-end runs on each file; --pair-adapters at the
   modifier seam.
C  'allowed errors' ranges: every adapter length 1-60 (minus 0-10 N) x every rate i/100 and k/L: the reported ranges must
   state floor(L x rate) for every L."""
import collections
import json
import math
import os

from .. import clih, common, explore, mcharness, refops, vmp
from .c17 import corpus as c17_corpus

PROP = "C20"
MOD = "vf.checks.c20"

ADSETS = [
    [("-a", "a1=ACGTACGG")],
    [("-g", "g1=TTGCAGCA")],
    [("-a", "a1=ACGTACGG"), ("-g", "g1=TTGCAGCA")],
    [("-b", "b1=GGATCCAA"), ("-a", "a2=CCGGTTAA")],
    [("-a", "a1=ACGTACGG"), ("-a", "a2=CCGGTTAA"), ("-g", "g1=TTGCAGCA")],
    [("-a", "l1=^TTGCA...ACGTACGG")],
    [("-g", "l2=TTGCAGCA...CCGGTTAA"), ("-a", "a1=ACGTACGG")],
    [("-g", "p1=^TTGCAGCA"), ("-a", "s1=ACGTACGG$")],
    [("-b", "b2=ACGTACGG")],
]
FIVE = {"g1", "p1"}
ANY = {"b1", "b2"}
RATE = 0.15


def scenarios(tier):
    S = []
    for ai in range(len(ADSETS)):
        for times in (1, 2, 3):
            for action in ("trim", "none", "lowercase"):
                for rc in (False, True):
                    S.append(dict(kind="single", ai=ai, times=times, action=action, rc=rc, cores=1))
        S.append(dict(kind="single", ai=ai, times=2, action="trim", rc=(ai % 2 == 0), cores=2))
    for ai in (0, 2, 3, 4, 6):
        for times in (1, 2):
            S.append(dict(kind="paired", ai=ai, times=times))
    # adapters for one side only: the other side's list must stay empty
    for ai in (0, 2, 3, 6):
        for sides in ("r1", "r2"):
            S.append(dict(kind="paired", ai=ai, times=2 if ai == 2 else 1, sides=sides))
    for part in range(4):
        S.append(dict(kind="pair-adapters", part=part))
    for part in range(12):
        S.append(dict(kind="ranges", part=part, parts=12))
    S.append(dict(kind="ranges-cli"))
    return S


def shards(tier):
    S = scenarios(tier)
    n = 32
    return [dict(tier=tier, idx=list(range(i, len(S), n))) for i in range(n)]


def tally_info(rows, names):
    """adapter name -> dict(five={len:{err:n}}, three={...}, adjacent={base:n}, rc=n)"""
    T = {n: dict(five=collections.defaultdict(lambda: collections.Counter()), three=collections.defaultdict(lambda: collections.Counter()),
                 adjacent=collections.Counter(), rc=0) for n in names}
    prev = None
    for row in rows:
        if row[1] == "-1":
            prev = None
            continue
        errors, start, end = int(row[1]), int(row[2]), int(row[3])
        left, mid, right, aname = row[4], row[5], row[6], row[7]
        rcflag = row[11] if len(row) > 11 else ""
        base = aname.split(";")[0]
        if aname.endswith(";1"):
            side = "five"
        elif aname.endswith(";2"):
            side = "three"
        elif base in FIVE:
            side = "five"
        elif base in ANY:
            side = "five" if start == 0 else "three"
        else:
            side = "three"
        t = T[base]
        if side == "five":
            t["five"][end][errors] += 1
        else:
            t["three"][len(mid) + len(right)][errors] += 1
            b = left[-1:] if left else ""
            t["adjacent"][b if b in ("A", "C", "G", "T") else ""] += 1
        # a linked adapter's two rows (;1 then ;2 of the same read) are ONE applied match
        second_part = aname.endswith(";2") and prev == (row[0], base + ";1")
        if rcflag == "1" and not second_part:
            t["rc"] += 1
        prev = (row[0], aname)
    return T


def json_end(e):
    if e is None:
        return None
    d = {}
    for row in e["trimmed_lengths"]:
        d[row["len"]] = {k: c for k, c in enumerate(row["counts"]) if c}
    return dict(matches=e["matches"], hist=d, adjacent=e["adjacent_bases"])


def compare(V, case, jadapters, T, check_rc):
    reported = {ja["name"] for ja in jadapters}
    for name, t in T.items():
        if name not in reported:
            V.append(("json-missing", f"adapter {name} was given for this read but the report has no statistics for it here", case))
    for ja in jadapters:
        name = ja["name"]
        t = T.get(name)
        if t is None:
            V.append(("json-name", f"adapter {name} in the report was not given", case))
            continue
        for side, key in (("five", "five_prime_end"), ("three", "three_prime_end")):
            e = json_end(ja[key])
            exp = {L: dict(c) for L, c in t[side].items()}
            n_exp = sum(sum(c.values()) for c in exp.values())
            if e is None:
                if n_exp:
                    V.append((f"{side}:missing", f"adapter {name}: {n_exp} applied {side}-prime matches but the report has no such end", case))
                continue
            if e["matches"] != n_exp:
                V.append((f"{side}:matches", f"adapter {name}: report says {e['matches']} {side}-prime matches, {n_exp} were applied", case))
            elif e["hist"] != exp:
                V.append((f"{side}:histogram", f"adapter {name}: removed-length x error histogram {e['hist']} differs from the applied matches {exp}", case))
            if side == "three" and n_exp:
                adj = {b: t["adjacent"].get(b, 0) for b in ("A", "C", "G", "T", "")}
                if e["adjacent"] != adj:
                    V.append(("three:adjacent", f"adapter {name}: adjacent bases {e['adjacent']} differ from the applied matches {adj}", case))
        total = sum(sum(c.values()) for c in t["five"].values()) + sum(sum(c.values()) for c in t["three"].values())
        if ja["total_matches"] != total:
            V.append(("total", f"adapter {name}: total_matches={ja['total_matches']} but {total} matches were applied", case))
        if check_rc:
            got = ja["on_reverse_complement"]
            if (got or 0) != t["rc"]:
                V.append(("revcomp-count", f"adapter {name}: on_reverse_complement={got} but {t['rc']} applied matches were on the reverse complement", case))


def read_info(path):
    with open(path) as fh:
        return [ln.rstrip("\n").split("\t") for ln in fh if ln.strip("\n") != ""]


def run_shard(d):
    S = scenarios(d["tier"])
    res = dict(evals=0, runs=0, nontrivial=0, executions=0, viol=common.Viols(cap=3), samples=[])
    wd = clih.fresh_dir("c20")
    for i in d["idx"]:
        sc = S[i]
        {"single": do_single, "paired": do_paired, "pair-adapters": do_pair_adapters, "ranges": do_ranges, "ranges-cli": do_ranges_cli}[sc["kind"]](sc, wd, res)
    clih.rmtree(wd)
    return res


def _argv(sc, adset):
    a = ["-e", repr(RATE), "-O", "4", "--times", str(sc["times"])]
    if sc.get("action", "trim") != "trim":
        a += [f"--action={sc['action']}"]
    for f, s in adset:
        a += [f, s]
    if sc.get("rc"):
        a += ["--revcomp"]
    return a


def do_single(sc, wd, res):
    V = res["viol"]
    recs = c17_corpus()
    adset = ADSETS[sc["ai"]]
    names = [s.split("=")[0] for _, s in adset]
    case = dict(scenario=sc, argv=_argv(sc, adset))
    if sc["cores"] == 1:
        inp = os.path.join(wd, "in.fq")
        clih.write_text(inp, clih.fastq_text(recs))
        infop, js = os.path.join(wd, "info.tsv"), os.path.join(wd, "r.json")
        r = clih.run_cli(_argv(sc, adset) + ["--info-file", infop, "--json", js, "-o", os.path.join(wd, "o.fq"), inp])
        res["runs"] += 1
        if r.exit != 0:
            V.append(("cli", f"cutadapt failed: {r.exit} {r.exc} {r.errors()[:1]}", case))
            return
        rows = read_info(infop)
        T = tally_info(rows, names)
        j = clih.read_json(js)
        res["evals"] += len(rows)
        res["nontrivial"] += sum(1 for x in rows if x[1] != "-1")
        compare(V, case, j["adapters_read1"], T, sc["rc"])
        if not res["samples"]:
            res["samples"].append(dict(argv=case["argv"], match_rows=sum(1 for x in rows if x[1] != "-1")))
        return
    # two cores under the virtual scheduler: default schedule + every schedule with one deviation
    ind, rund = os.path.join(wd, "mc-in"), os.path.join(wd, "mc-run")
    for x in (ind, rund):
        os.makedirs(x, exist_ok=True)
    inp = os.path.join(ind, "in.fq")
    clih.write_text(inp, clih.fastq_text(recs[:40]))
    argv = ["-j", "2", "--buffer-size", "900"] + _argv(sc, adset) + ["--info-file", os.path.join(rund, "info.tsv"), "--json",
                                                                      os.path.join(rund, "report.json"), "-o", os.path.join(rund, "o.fq"), inp]

    def run_exec(prefix):
        s = mcharness.run_virtual(argv, rund, prefix=prefix)
        if s.divergence:
            raise vmp.HarnessNondeterminism(s.divergence)
        fail = None
        if s.deadlock or s.exit != 0:
            fail = f"run failed: exit={s.exit} deadlock={s.deadlock} {s.errors[:1]}"
        else:
            rows = [ln.split("\t") for ln in s.outputs["info.tsv"].decode().split("\n") if ln]
            T = tally_info(rows, names)
            VV = []
            compare(VV, {}, s.json["adapters_read1"], T, sc["rc"])
            if VV:
                fail = VV[0][1]
        return s.points, (s.exit, fail), fail

    r = explore.explore(run_exec, "D", bound=1)
    res["executions"] += r.executions
    res["evals"] += r.executions * 40
    for prefix, fail, choices in r.failures[:2]:
        V.append(("multicore", "with 2 cores: " + fail, dict(case, schedule=list(choices))))


def do_paired(sc, wd, res):
    V = res["viol"]
    r1 = c17_corpus()
    r2 = [(n, refops.revcomp(s)[: max(0, len(s) - 1)] + ("ACGTACGG" if k % 3 == 0 else ""), None) for k, (n, s, q) in enumerate(r1)]
    r2 = [(n, s, "I" * len(s)) for n, s, _ in r2]
    adset = ADSETS[sc["ai"]]
    names = [s.split("=")[0] for _, s in adset]
    up = {"-a": "-A", "-g": "-G", "-b": "-B"}
    p1, p2 = os.path.join(wd, "p1.fq"), os.path.join(wd, "p2.fq")
    clih.write_text(p1, clih.fastq_text(r1))
    clih.write_text(p2, clih.fastq_text(r2))
    js = os.path.join(wd, "r.json")
    argv = ["-e", repr(RATE), "-O", "4", "--times", str(sc["times"])]
    sides = sc.get("sides", "both")
    for f, s in adset:
        if sides in ("both", "r1"):
            argv += [f, s]
        if sides in ("both", "r2"):
            argv += [up[f], s.replace("=", "x=", 1)]
    r = clih.run_cli(argv + ["--json", js, "-o", os.path.join(wd, "o1.fq"), "-p", os.path.join(wd, "o2.fq"), p1, p2])
    res["runs"] += 1
    case = dict(scenario=sc, argv=argv)
    if r.exit != 0:
        V.append(("cli", f"cutadapt failed: {r.exit} {r.exc} {r.errors()[:1]}", case))
        return
    j = clih.read_json(js)
    for mate, path, key, suffix in ((1, p1, "adapters_read1", ""), (2, p2, "adapters_read2", "x")):
        if sides != "both" and sides != f"r{mate}":
            if j.get(key):
                V.append(("json-side", f"no adapter was given for read {mate} but {key} lists {[a['name'] for a in j[key]]}", dict(case, mate=mate)))
            continue
        infop = os.path.join(wd, "info.tsv")
        a = ["-e", repr(RATE), "-O", "4", "--times", str(sc["times"])]
        for f, s in adset:
            a += [f, s]
        rr = clih.run_cli(a + ["--info-file", infop, "-o", os.path.join(wd, "s.fq"), path])
        res["runs"] += 1
        rows = read_info(infop)
        res["evals"] += len(rows)
        res["nontrivial"] += sum(1 for x in rows if x[1] != "-1")
        T = tally_info(rows, names)
        T = {k + suffix: v for k, v in T.items()}
        compare(V, dict(case, mate=mate), j[key], T, False)


def do_pair_adapters(sc, wd, res):
    from cutadapt.adapters import RemoveBeforeMatch
    from cutadapt.info import ModificationInfo
    from cutadapt.modifiers import PairedAdapterCutter
    from cutadapt.parser import make_adapters_from_specifications
    from dnaio import SequenceRecord

    V = res["viol"]
    sets = [([("back", "a=ACGTACGG")], [("back", "b=CCGGTTAA")]), ([("front", "a=TTGCAGCA")], [("back", "b=CCGGTTAA")]),
            ([("back", "a=ACGTACGG"), ("back", "a2=GGATCCAA")], [("front", "b=TTGCAGCA"), ("back", "b2=CCGGTTAA")]),
            ([("anywhere", "a=ACGTACGG")], [("back", "b=CCGGTTAA"), ])]
    s1, s2 = sets[sc["part"]]
    params = dict(max_errors=RATE, min_overlap=4, read_wildcards=False, adapter_wildcards=True, indels=True)
    a1, a2 = make_adapters_from_specifications(s1, params), make_adapters_from_specifications(s2, params)
    for action in ("trim", None, "mask"):
        cut = PairedAdapterCutter(a1, a2, action)
        T = [collections.defaultdict(lambda: collections.defaultdict(collections.Counter)) for _ in (0, 1)]
        recs = c17_corpus()
        n_pairs = 0
        for k, (n, s, q) in enumerate(recs):
            for k2 in (k, (k * 5 + 3) % len(recs), (k * 11 + 7) % len(recs)):
                s2_, q2 = recs[k2][1], recs[k2][2]
                i1, i2 = ModificationInfo(SequenceRecord(n, s, q)), ModificationInfo(SequenceRecord(n, s2_, q2))
                cut(SequenceRecord(n, s, q), SequenceRecord(n, s2_, q2), i1, i2)
                res["evals"] += 1
                for mate, info, seq in ((0, i1, s), (1, i2, s2_)):
                    for m in info.matches:
                        front = isinstance(m, RemoveBeforeMatch)
                        removed = m.rstop if front else len(seq) - m.rstart
                        T[mate][m.adapter.name]["five" if front else "three"][(removed, m.errors)] += 1
                        n_pairs += 1
        res["nontrivial"] += n_pairs
        for mate in (0, 1):
            for ad, st in cut.adapter_statistics[mate].items():
                ends = st.end_statistics()
                for side, end in (("five", ends[0]), ("three", ends[1])):
                    exp = dict(T[mate][ad.name][side])
                    got = {}
                    if end is not None:
                        for L, errs in end.errors.items():
                            for e, c in errs.items():
                                if c:
                                    got[(L, e)] = c
                    if got != exp:
                        V.append(("pair-adapters:histogram", f"--pair-adapters: statistics of {ad.name} ({side}-prime) {got} differ from the applied matches {exp}",
                                  dict(adapters1=[x[1] for x in s1], adapters2=[x[1] for x in s2], action=str(action))))


def allowed_from_ranges(lengths, L):
    for i, up in enumerate(lengths):
        if L <= up:
            return i
    return None


def do_ranges(sc, wd, res):
    from cutadapt.report import ErrorRanges

    V = res["viol"]
    rates = sorted({i / 100 for i in range(0, 100)} | {k / L for L in range(1, 41) for k in range(0, L)})
    rates = [r for k, r in enumerate(rates) if k % sc["parts"] == sc["part"]]
    for rate in rates:
        for eff in range(1, 61):
            res["evals"] += 1
            lengths = ErrorRanges(length=eff, error_rate=rate).lengths()
            if int(rate * eff) > 0:
                res["nontrivial"] += 1
            if lengths[-1] != eff or any(a >= b for a, b in zip(lengths, lengths[1:])):
                V.append(("ranges:shape", f"error ranges {lengths} are not increasing up to the adapter length {eff}", dict(length=eff, rate=rate)))
                continue
            for L in range(1, eff + 1):
                got = allowed_from_ranges(lengths, L)
                if got != int(L * rate):
                    V.append(("ranges:value", f"reported ranges {lengths} allow {got} errors at length {L}, but floor({L} x {rate}) = {int(L * rate)}",
                              dict(length=eff, rate=rate)))
                    break


def do_ranges_cli(sc, wd, res):
    """The ranges as users see them: JSON error_lengths and the text line, for adapters with N wildcards (effective length)."""
    V = res["viol"]
    inp = os.path.join(wd, "in.fq")
    clih.write_text(inp, clih.fastq_text([("r", "ACGT", "IIII")]))
    js = os.path.join(wd, "r.json")
    for seq in ("ACGTACGGTTGACCA", "ACGTNNNNNNACGTTGCA", "A" * 33, "ACGTACGGTTGACCAGGTTAACCGGTTAAC" + "N" * 10, "ACGTACG", "ACGNNTACG",
                "ACGTACGGT", "ACGTACGGTTG", "ACGTACGGTTGAC", ("ACGTTGCAAGCTTCGA" * 4)[:47], ("GATTACAGGCTTAACC" * 4)[:49]):
        eff = len(seq) - seq.count("N")
        # rates as typed, and absolute error counts (converted to the rate k / non-N bases: 1/7, 2/9, 3/11 ... do not terminate)
        for given in (0.1, 0.12, 0.2, 0.33, 0.07, 0.25, 1, 2, 3):
            rate = given if given < 1 else given / eff
            if rate >= 1:
                continue
            r = clih.run_cli(["-e", repr(given), "-a", f"x={seq}", "--json", js, "-o", os.path.join(wd, "o.fq"), inp])
            res["runs"] += 1
            res["evals"] += 1
            if r.exit != 0:
                V.append(("cli", f"cutadapt failed: {r.exit} {r.exc}", dict(seq=seq, rate=rate)))
                continue
            j = clih.read_json(js)
            lengths = j["adapters_read1"][0]["three_prime_end"]["error_lengths"]
            bad = [L for L in range(1, eff + 1) if allowed_from_ranges(lengths, L) != int(L * rate)]
            if bad or lengths[-1] != eff:
                V.append(("ranges:json", f"JSON error_lengths {lengths} do not state floor(L x {rate}) for L={bad[:3]} (non-N adapter bases: {eff})",
                          dict(adapter=seq, rate=rate)))
            txt = r.report_text()
            # the same adapter anchored: one number, and the max.err column of the table of removed lengths
            inp2 = os.path.join(wd, "in2.fq")
            clih.write_text(inp2, clih.fastq_text([("r", seq.replace("N", "A") + "CCCC", "I" * (len(seq) + 4)), ("s", seq.replace("N", "C")[:-1] + "TCC", "I" * (len(seq) + 2))]))
            r2 = clih.run_cli(["-e", repr(given), "-g", f"x=^{seq}", "-o", os.path.join(wd, "o2.fq"), inp2])
            res["runs"] += 1
            if r2.exit == 0:
                t2 = r2.report_text().splitlines()
                for k, ln in enumerate(t2):
                    if ln.startswith("No. of allowed errors:") and ln.split(":")[1].strip().isdigit():
                        if int(ln.split(":")[1]) != int(eff * rate):
                            V.append(("ranges:text", f"anchored adapter: '{ln}', floor({eff} x {rate}) = {int(eff * rate)}", dict(adapter=seq, rate=rate)))
                    if ln.startswith("length\tcount\texpect\tmax.err"):
                        for row in t2[k + 1:]:
                            cols = row.split("\t")
                            if len(cols) < 4 or not cols[0].isdigit():
                                break
                            L = int(cols[0])
                            if int(cols[3]) != int(rate * min(L, eff)):
                                V.append(("ranges:max.err", f"table row '{row}' states max.err {cols[3]}, floor({min(L, eff)} x {rate}) = "
                                          f"{int(rate * min(L, eff))}", dict(adapter=seq, rate=rate)))
                                break
            line = None
            lines = txt.splitlines()
            for k, ln in enumerate(lines):
                if ln.startswith("No. of allowed errors"):
                    line = lines[k + 1]
            if line:
                spans = []
                for part in line.split(";"):
                    rng, _, e = part.strip().partition(" bp: ")
                    lo, _, hi = rng.partition("-")
                    spans.append((int(lo), int(hi or lo), int(e)))
                for lo, hi, e in spans:
                    for L in range(lo, hi + 1):
                        if int(L * rate) != e:
                            V.append(("ranges:text", f"text report line '{line}' states {e} errors at {L} bp, floor({L} x {rate}) = {int(L * rate)}",
                                      dict(adapter=seq, rate=rate)))
                            break


def run(tier):
    R = common.Result(PROP, tier, "exploration")
    sh = shards(tier)
    out = common.pmap(MOD, "run_shard", sh)
    tot = {}
    for r in out:
        for k, v in r.items():
            if isinstance(v, int):
                tot[k] = tot.get(k, 0) + v
        for s in r["samples"]:
            R.sample(s)
        for sig, what, case in r["viol"]:
            R.violation(sig, what, case)
    R.counters = tot
    R.coverage["scenarios"] = len(scenarios(tier))
    R.assumptions = ["the info file of the same run lists the applied matches (C17 judges the info file); scenarios use no pre-adapter "
                     "modification so that removed lengths can be read off the rows", "paired-end: per-mate trimming is independent, so the "
                     "single-end run on each file gives the applied matches"]
    return R.finish(tot.get("evals", 0), tot.get("nontrivial", 0),
                    "A: 9 adapter sets (3', 5', anywhere, anchored, two linked) x --times {1,2,3} x {trim,none,lowercase} x --revcomp on/off, "
                    "JSON statistics vs. tally of the info-file rows; 9 scenarios also with 2 cores under every schedule with <= 1 deviation; "
                    "B: paired-end R1/R2 statistics vs. single-end runs, --pair-adapters at the modifier seam; C: ErrorRanges for every "
                    "effective length 1-60 x ~750 rates (i/100 and k/L), plus JSON/text for adapters with N; non-trivial = applied matches "
                    "tallied / ranges with >= 1 allowed error",
                    True)


def replay(path):
    with open(path) as f:
        v = json.load(f)
    print(json.dumps(v, indent=1)[:3000])
    c = v["case"]
    if "length" in c and "rate" in c:
        from cutadapt.report import ErrorRanges

        lengths = ErrorRanges(length=c["length"], error_rate=c["rate"]).lengths()
        bad = [L for L in range(1, c["length"] + 1) if allowed_from_ranges(lengths, L) != int(L * c["rate"])]
        print("ranges", lengths, "wrong at", bad[:5])
        return 1 if bad else 0
    import sys
    return common.replay_by_rerun(sys.modules[__name__], PROP, path)
