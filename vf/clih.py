"""E3: in-process driver of cutadapt.cli.main plus strict record readers/writers for the harness."""
import bz2
import gzip
import io
import json
import logging
import lzma
import os
import sys

from . import common


class _Capture(logging.Handler):
    def __init__(self):
        super().__init__(level=logging.INFO)
        self.records = []

    def emit(self, record):
        try:
            msg = record.getMessage()
        except Exception:  # noqa
            msg = str(record.msg)
        self.records.append((record.levelno, msg))


class CliResult:
    __slots__ = ("exit", "stats", "log", "exc", "argv")

    def __init__(self):
        self.exit = None  # 0 on normal return, int from SystemExit, "EXC" on uncaught exception
        self.stats = None
        self.log = []
        self.exc = None
        self.argv = None

    @property
    def ok(self):
        return self.exit == 0

    def report_text(self):
        from cutadapt.log import REPORT

        return "\n".join(m for lv, m in self.log if lv == REPORT)

    def errors(self):
        return [m for lv, m in self.log if lv >= logging.ERROR]

    def warnings(self):
        return [m for lv, m in self.log if lv == logging.WARNING]


def reset_adapter_names():
    """Unnamed adapters get names from a module-level counter; reset it so that an in-process run
    equals a fresh-process run. Best effort: the checks name their adapters wherever names matter."""
    try:
        import cutadapt.adapters as A

        d = A._generate_adapter_name.__defaults__
        if d and isinstance(d[0], list) and d[0]:
            d[0][0] = 1
    except Exception:  # noqa
        pass


def run_cli(argv, capture_exc=True):
    """Run cutadapt.cli.main(argv) in this process."""
    from cutadapt.cli import main

    reset_adapter_names()
    res = CliResult()
    res.argv = list(argv)
    root = logging.getLogger()
    old_handlers = root.handlers[:]
    old_level = root.level
    cap = _Capture()
    root.handlers[:] = [cap]
    root.setLevel(logging.INFO)
    old_stdin = sys.stdin
    try:
        res.stats = main(list(argv))
        res.exit = 0
    except SystemExit as e:
        c = e.code
        res.exit = 0 if c is None else c
    except Exception as e:  # noqa
        if not capture_exc:
            raise
        res.exit = "EXC"
        res.exc = f"{type(e).__name__}: {e}"
    finally:
        root.handlers[:] = old_handlers
        root.setLevel(old_level)
        sys.stdin = old_stdin
    res.log = cap.records
    return res


# --------------------------------------------------------------------------------------------
# strict readers (deliberately not dnaio)
# --------------------------------------------------------------------------------------------

class Malformed(Exception):
    pass


def read_bytes(path):
    with open(path, "rb") as f:
        data = f.read()
    if path.endswith(".gz") or data[:2] == b"\x1f\x8b":
        return gzip.decompress(data) if data else data
    if path.endswith(".bz2") or data[:3] == b"BZh":
        return bz2.decompress(data) if data else data
    if path.endswith(".xz") or data[:6] == b"\xfd7zXZ\x00":
        return lzma.decompress(data) if data else data
    if path.endswith(".zst") or data[:4] == b"\x28\xb5\x2f\xfd":
        from xopen import xopen

        with xopen(path, "rb") as f:
            return f.read()
    return data


def parse_fastq(data, strict=True):
    """Strict four-line FASTQ. Returns list of (name, seq, qual). Raises Malformed.
    strict=False: a record whose sequence and quality lengths differ is returned as it is (checks that compare
    records with expected ones then report it as a difference)."""
    if isinstance(data, bytes):
        try:
            data = data.decode("ascii")
        except UnicodeDecodeError:
            raise Malformed("non-ASCII")
    if data == "":
        return []
    lines = data.split("\n")
    if lines[-1] == "":
        lines.pop()
    # (a final record without trailing newline is accepted like dnaio does)
    if len(lines) % 4 != 0:
        raise Malformed("number of lines not a multiple of four")
    out = []
    for i in range(0, len(lines), 4):
        h, s, p, q = (x[:-1] if x.endswith("\r") else x for x in lines[i:i + 4])
        if not h.startswith("@"):
            raise Malformed(f"record {i // 4}: header does not start with @")
        if not p.startswith("+"):
            raise Malformed(f"record {i // 4}: third line does not start with +")
        if len(p) > 1 and p[1:] != h[1:]:
            raise Malformed(f"record {i // 4}: second header differs")
        if len(s) != len(q) and strict:
            raise Malformed(f"record {i // 4}: sequence and quality lengths differ")
        out.append((h[1:], s, q))
    return out


def parse_fasta(data):
    if isinstance(data, bytes):
        data = data.decode("ascii")
    out = []
    name, seq = None, []
    for line in data.split("\n"):
        if line.endswith("\r"):
            line = line[:-1]
        if line.startswith(">"):
            if name is not None:
                out.append((name, "".join(seq), None))
            name, seq = line[1:], []
        elif line.startswith("#") and name is None:
            continue
        elif line == "":
            continue
        else:
            if name is None:
                raise Malformed("sequence before first header")
            seq.append(line)
    if name is not None:
        out.append((name, "".join(seq), None))
    return out


def detect_format(data):
    if isinstance(data, bytes):
        data = data.decode("ascii", "replace")
    for ch in data:
        if ch == "@":
            return "fastq"
        if ch == ">":
            return "fasta"
        if ch in "\n\r ":
            continue
        return "unknown"
    return "empty"


def read_records(path):
    """Read a FASTA or FASTQ file (possibly compressed). Returns (format, records)."""
    data = read_bytes(path)
    fmt = detect_format(data)
    if fmt == "fastq":
        return fmt, parse_fastq(data, strict=False)
    if fmt == "fasta":
        return fmt, parse_fasta(data)
    if fmt == "empty":
        return fmt, []
    raise Malformed(f"unknown format in {path}")


def fastq_text(records):
    return "".join(f"@{n}\n{s}\n+\n{q}\n" for n, s, q in records)


def fasta_text(records):
    return "".join(f">{r[0]}\n{r[1]}\n" for r in records)


def write_text(path, text):
    with open(path, "w") as f:
        f.write(text)


def read_json(path):
    with open(path) as f:
        return json.load(f)


_counter = [0]


def fresh_dir(tag="r"):
    """A new empty directory under this process's work directory."""
    _counter[0] += 1
    d = os.path.join(common.workdir(), f"{tag}{_counter[0]}")
    os.makedirs(d, exist_ok=True)
    return d


def rmtree(d):
    import shutil

    shutil.rmtree(d, ignore_errors=True)


def read_records_checked(path, V, sig, case):
    """Like read_records(path)[1], but a file that does not parse becomes a violation (appended to V) and None is returned."""
    try:
        return read_records(path)[1]
    except (Malformed, OSError, UnicodeDecodeError, EOFError, ValueError) as e:
        V.append((sig, f"output file {os.path.basename(path)} does not parse: {type(e).__name__}: {e}", dict(case)))
        return None
