"""Shared infrastructure for all checks: rebuild step, sharded parallel map, evidence writer,
known findings, violation artefacts.

Conventions (DESIGN.md section 2):
  exit 0  property held on everything explored (known findings are printed, not failed)
  exit 1  + 'VIOLATION property=<ID> replay=<path>' on stdout
  exit 2  harness / build problem (never reported as a violation)
"""
import fcntl
import hashlib
import json
import multiprocessing
import os
import shutil
import subprocess
import sys
import time
import traceback

VERIF = os.path.dirname(os.path.dirname(os.path.abspath(__file__)))
REPO = os.environ.get("VERIF_REPO", "/repo")
# where evidence/ and replays/ are written: /verif itself, except for experiments on patched copies of the repository
# (tools/seed_matrix.sh), which must not overwrite the evidence of the real tree
OUT = os.environ.get("VERIF_OUT", VERIF)
SRC = os.path.join(REPO, "src", "cutadapt")
PY = "/venv/bin/python"
NPROC = int(os.environ.get("VERIF_NPROC", str(min(16, os.cpu_count() or 1))))
PYX = ["_align.pyx", "qualtrim.pyx", "_kmer_finder.pyx", "info.pyx"]


class HarnessError(Exception):
    """Something is wrong with the machinery or the build, not with the property."""


def seed():
    try:
        return int(os.environ.get("VERIF_SEED", "0"))
    except ValueError:
        return 0


def tier_from_env(default="quick"):
    t = os.environ.get("VERIF_TIER", default)
    return t if t in ("quick", "thorough") else default


# --------------------------------------------------------------------------------------------
# rebuild step
# --------------------------------------------------------------------------------------------

def _source_hash():
    h = hashlib.sha256()
    names = sorted(
        n for n in os.listdir(SRC) if n.endswith((".pyx", ".pxd", ".h", ".pxi")) or n == "_match_tables.py"
    )
    for n in names:
        h.update(n.encode())
        with open(os.path.join(SRC, n), "rb") as f:
            h.update(f.read())
    h.update(sys.version.encode())
    return h.hexdigest()


def _so_present():
    have = os.listdir(SRC)
    for p in PYX:
        stem = p[:-4]
        if not any(n.startswith(stem + ".") and n.endswith(".so") for n in have):
            return False
    return True


def rebuild(verbose=True):
    """Re-cythonize the extension modules in place when their sources differ from the stamp."""
    if os.environ.get("VERIF_SKIP_REBUILD") == "1":
        return False
    cache = os.path.join(VERIF, ".cache")
    os.makedirs(cache, exist_ok=True)
    tag = hashlib.sha1(os.path.realpath(SRC).encode()).hexdigest()[:10]
    stamp = os.path.join(cache, f"build_stamp_{tag}")
    lock = os.path.join(cache, f"build_lock_{tag}")
    want = _source_hash()

    def fresh():
        try:
            with open(stamp) as f:
                return f.read().strip() == want and _so_present()
        except OSError:
            return False

    if fresh():
        return False
    with open(lock, "w") as lf:
        fcntl.flock(lf, fcntl.LOCK_EX)
        if fresh():
            return False
        if verbose:
            print(f"[verif] rebuilding Cython extensions in {SRC}", file=sys.stderr, flush=True)
        t0 = time.time()
        cy = os.path.join(os.path.dirname(PY), "cythonize")
        r = subprocess.run(
            [cy, "-i", "-3", "-f"] + PYX, cwd=SRC, stdout=subprocess.PIPE, stderr=subprocess.STDOUT, text=True
        )
        if r.returncode != 0 or not _so_present():
            sys.stderr.write(r.stdout[-4000:])
            raise HarnessError("build of the Cython extensions failed")
        # cythonize leaves its intermediate build tree in <repo>/src/build: remove it (it is not part of the repository)
        bdir = os.path.join(REPO, "src", "build")
        tracked = subprocess.run(["git", "-C", REPO, "ls-files", "--error-unmatch", "src/build"], stdout=subprocess.DEVNULL,
                                 stderr=subprocess.DEVNULL).returncode == 0
        if os.path.isdir(bdir) and not tracked:
            shutil.rmtree(bdir, ignore_errors=True)
        with open(stamp, "w") as f:
            f.write(want)
        if verbose:
            print(f"[verif] rebuild done in {time.time() - t0:.1f}s", file=sys.stderr, flush=True)
    return True


def ensure_repo_importable():
    """Make `import cutadapt` resolve to $VERIF_REPO/src."""
    src = os.path.join(REPO, "src")
    if sys.path[0] != src:
        sys.path.insert(0, src)
    import cutadapt  # noqa

    got = os.path.dirname(os.path.abspath(cutadapt.__file__))
    if os.path.realpath(got) != os.path.realpath(SRC):
        raise HarnessError(f"cutadapt imported from {got}, expected {SRC}")


# --------------------------------------------------------------------------------------------
# scratch space
# --------------------------------------------------------------------------------------------

_WORK = None


def workdir():
    """Private scratch directory for this process (created lazily, removed by cleanup_workdirs)."""
    global _WORK
    if _WORK is None or not os.path.isdir(_WORK) or _WORK_PID != os.getpid():
        base = "/dev/shm" if os.path.isdir("/dev/shm") and os.access("/dev/shm", os.W_OK) else os.path.join(VERIF, ".work")
        root = os.path.join(base, f"verif-{RUN_TAG}")
        os.makedirs(root, exist_ok=True)
        _set_work(os.path.join(root, f"p{os.getpid()}"))
        os.makedirs(_WORK, exist_ok=True)
    return _WORK


_WORK_PID = None
RUN_TAG = os.environ.get("VERIF_RUN_TAG") or f"{os.getpid()}"
os.environ["VERIF_RUN_TAG"] = RUN_TAG


def _set_work(p):
    global _WORK, _WORK_PID
    _WORK = p
    _WORK_PID = os.getpid()


def cleanup_workdirs():
    for base in ("/dev/shm", os.path.join(VERIF, ".work")):
        root = os.path.join(base, f"verif-{RUN_TAG}")
        shutil.rmtree(root, ignore_errors=True)


# --------------------------------------------------------------------------------------------
# sharded parallel map
# --------------------------------------------------------------------------------------------

_SHARD_FN = None


def _init_worker(fn_module, fn_name, init_name):
    global _SHARD_FN
    import importlib

    mod = importlib.import_module(fn_module)
    _SHARD_FN = getattr(mod, fn_name)
    if init_name:
        getattr(mod, init_name)()


class ImplementationCrash(Exception):
    """The code under test raised an exception on an input of the enumeration (raised inside /repo/src, not in the harness)."""

    def __init__(self, text, module_name, fn_name, shard, partial=None):
        super().__init__(text)
        self.text, self.module_name, self.fn_name, self.shard = text, module_name, fn_name, shard
        self.partial = partial or {}


def _raised_in_implementation(exc):
    """True if the innermost frame of the traceback lies in the cutadapt sources (a harness bug ends in a /verif frame)."""
    tb = traceback.extract_tb(exc.__traceback__)
    if not tb:
        return False
    fn = tb[-1].filename.replace("\\", "/")
    if os.path.basename(fn) in PYX or fn.startswith("cutadapt/"):
        return True  # frames of the Cython modules carry relative file names
    return "/verif/" not in fn and ("/src/cutadapt/" in fn or fn.startswith("src/cutadapt/") or fn.startswith(os.path.join(REPO, "src")))


def _run_one(args):
    idx, desc = args
    try:
        return idx, _SHARD_FN(desc), None
    except BaseException as e:  # noqa
        kind = "impl" if isinstance(e, Exception) and _raised_in_implementation(e) else "harness"
        return idx, None, (kind, traceback.format_exc())


def _raise_crashes(crashes, results, module_name, fn_name):
    """The other shards were still run to the end: their counters go into the evidence of the failing run."""
    done = [r for r in results if isinstance(r, dict)]
    partial = dict(shards_completed=len(done), shards_crashed=len(crashes),
                   evals=sum(int(r.get("evals", 0)) for r in done if isinstance(r.get("evals", 0), int)),
                   nontrivial=sum(int(r.get("nontrivial", 0)) for r in done if isinstance(r.get("nontrivial", 0), int)))
    shard, text = crashes[0]
    raise ImplementationCrash(text, module_name, fn_name, shard, partial)


def report_crash(prop, tier, level, crash):
    """An exception inside the implementation on an enumerated input: evidence + VIOLATION line + replay artefact; returns 1."""
    R = Result(prop, tier, level)
    last = [ln for ln in crash.text.strip().split("\n") if ln.strip()][-1]
    R.violation(f"crash:{last.split(':')[0].strip()[:40]}", "the code under test raised an exception on an enumerated input: " + last[:200],
                dict(crash=True, module=crash.module_name, fn=crash.fn_name, shard=crash.shard, traceback=crash.text[-3000:]))
    R.notes.append("an exception raised inside the implementation ended this pass; later passes of the check were not run")
    R.sample(dict(shard=crash.shard, exception=last[:200]))
    p = crash.partial
    R.counters = dict(p)
    return R.finish(p.get("evals", 0) + p.get("shards_crashed", 1), p.get("nontrivial", 0) + p.get("shards_crashed", 1),
                    "a shard of the enumeration ended in an exception raised inside the implementation; the counts are those of the "
                    "shards of the same pass that ran to the end plus one per crashed shard", False)


def replay_crash(case):
    """Re-run the shard that crashed; 1 if the implementation raises again, 0 otherwise."""
    try:
        pmap(case["module"], case["fn"], [case["shard"]], nproc=1)
    except ImplementationCrash as e:
        print(e.text)
        return 1
    print("[verif] the shard runs to completion now")
    return 0


def pmap(module_name, fn_name, shards, init_name=None, nproc=None, progress=None, maxtasks=None):
    """Run module.fn(shard) for every shard on a pool of long-lived forked workers.
    Results come back in shard order. Any exception inside a shard is a HarnessError."""
    nproc = nproc or NPROC
    shards = list(shards)
    # seed only rotates the assignment order of shards; results are re-sorted
    rot = seed() % max(1, len(shards))
    order = list(range(len(shards)))
    order = order[rot:] + order[:rot]
    results = [None] * len(shards)
    crashes = []
    if nproc <= 1 or len(shards) <= 1:
        _init_worker(module_name, fn_name, init_name)
        for i in order:
            idx, res, err = _run_one((i, shards[i]))
            if err and err[0] == "impl":
                crashes.append((shards[idx], err[1]))
                continue
            if err:
                raise HarnessError("shard failed:\n" + err[1])
            results[idx] = res
        if crashes:
            _raise_crashes(crashes, results, module_name, fn_name)
        return results
    ctx = multiprocessing.get_context("fork")
    with ctx.Pool(min(nproc, len(shards)), initializer=_init_worker, initargs=(module_name, fn_name, init_name),
                  maxtasksperchild=maxtasks) as pool:
        done = 0
        for idx, res, err in pool.imap_unordered(_run_one, [(i, shards[i]) for i in order]):
            if err and err[0] == "impl":
                crashes.append((shards[idx], err[1]))
                continue
            if err:
                pool.terminate()
                raise HarnessError("shard failed:\n" + err[1])
            results[idx] = res
            done += 1
            if progress and done % progress == 0:
                print(f"[verif] {done}/{len(shards)} shards", file=sys.stderr, flush=True)
    if crashes:
        _raise_crashes(crashes, results, module_name, fn_name)
    return results


# --------------------------------------------------------------------------------------------
# known findings
# --------------------------------------------------------------------------------------------

def load_known(prop):
    """Return list of (signature, description) for 'finding:' lines of this property."""
    path = os.path.join(VERIF, "known_findings.txt")
    out = []
    try:
        with open(path) as f:
            for line in f:
                line = line.strip()
                if not line.startswith("finding:"):
                    continue
                rest = line[len("finding:"):].strip()
                parts = rest.split(None, 2)
                if len(parts) < 2 or parts[0] != f"property={prop}":
                    continue
                if not parts[1].startswith("sig="):
                    continue
                out.append((parts[1][4:], parts[2] if len(parts) > 2 else ""))
    except OSError:
        pass
    return out


# --------------------------------------------------------------------------------------------
# result collection
# --------------------------------------------------------------------------------------------

class Result:
    """Accumulates what a check covered; turns it into evidence + exit status."""

    def __init__(self, prop, tier, level):
        self.prop = prop
        self.tier = tier
        self.level = level
        self.t0 = time.time()
        self.coverage = {}
        self.counters = {}
        self.samples = []
        self.violations = []  # dicts with at least 'sig' and 'what'
        self.assumptions = []
        self.notes = []

    def add(self, key, n=1):
        self.counters[key] = self.counters.get(key, 0) + n

    def merge_counters(self, d):
        for k, v in d.items():
            if isinstance(v, (int, float)):
                self.counters[k] = self.counters.get(k, 0) + v

    def sample(self, s, cap=12):
        if len(self.samples) < cap:
            self.samples.append(s)

    def violation(self, sig, what, case):
        self.violations.append({"sig": sig, "what": what, "case": case})

    def finish(self, evaluations, distinct_nontrivial, rule, exhaustive, extra=None):
        known = load_known(self.prop)
        new, seen_known = [], {}
        for v in self.violations:
            hit = None
            for sig, desc in known:
                if v["sig"] == sig:
                    hit = (sig, desc)
                    break
            if hit:
                seen_known.setdefault(hit, []).append(v)
            else:
                new.append(v)
        for (sig, desc), vs in seen_known.items():
            print(f"KNOWN-FINDING: property={self.prop} sig={sig} {desc} (occurrences this run: {len(vs)}; "
                  f"e.g. {json.dumps(vs[0]['case'], default=str)[:300]})")
        cov = {
            "evaluations": int(evaluations),
            "distinct_nontrivial": int(distinct_nontrivial),
            "rule": rule,
            "samples": self.samples[:12] or ["<none>"],
            "exhaustive": bool(exhaustive),
            "counters": self.counters,
        }
        cov.update(self.coverage)
        if extra:
            cov.update(extra)
        if self.notes:
            cov["notes"] = self.notes
        cov["known_findings_seen"] = {sig: len(vs) for (sig, _), vs in seen_known.items()}
        ev = {
            "property_id": self.prop,
            "tier": self.tier,
            "seed": seed(),
            "level": self.level,
            "coverage": cov,
            "assumptions": self.assumptions,
            "wall_s": round(time.time() - self.t0, 2),
            "violations": len(new),
        }
        os.makedirs(os.path.join(OUT, "evidence"), exist_ok=True)
        evpath = os.path.join(OUT, "evidence", f"{self.prop}.json")
        tmp = evpath + f".tmp{os.getpid()}"
        with open(tmp, "w") as f:
            json.dump(ev, f, indent=1, default=str)
            f.write("\n")
        os.replace(tmp, evpath)
        status = 0
        if new:
            status = 1
            rdir = os.path.join(OUT, "replays", self.prop)
            os.makedirs(rdir, exist_ok=True)
            # one artefact per distinct signature, the first (= simplest, enumeration is simplest-first)
            done = set()
            for v in new:
                if v["sig"] in done:
                    continue
                done.add(v["sig"])
                name = hashlib.sha1(json.dumps(v, sort_keys=True, default=str).encode()).hexdigest()[:12]
                path = os.path.join(rdir, f"{name}.json")
                with open(path, "w") as f:
                    json.dump({"property": self.prop, **v}, f, indent=1, default=str)
                    f.write("\n")
                print(f"VIOLATION property={self.prop} replay={path}")
                print(f"  sig={v['sig']} what={v['what']}")
                print(f"  case={json.dumps(v['case'], default=str)[:600]}")
            print(f"[verif] {self.prop}: {len(new)} violating cases in {len(done)} classes", flush=True)
        print(f"[verif] {self.prop} tier={self.tier} evaluations={evaluations} nontrivial={distinct_nontrivial} "
              f"exhaustive={exhaustive} violations={len(new)} wall={ev['wall_s']}s")
        return status


class Viols(list):
    """List of (sig, what, case) that keeps at most `cap` entries per signature (the enumeration is
    simplest-first, so the first ones are the smallest) but counts all of them."""

    def __init__(self, cap=5):
        super().__init__()
        self.cap = cap
        self.counts = {}

    def append(self, item):
        sig = item[0]
        c = self.counts.get(sig, 0)
        self.counts[sig] = c + 1
        if c < self.cap:
            super().append(item)

    def __reduce__(self):
        return (_viols_rebuild, (self.cap, list(self), dict(self.counts)))


def _viols_rebuild(cap, items, counts):
    v = Viols(cap)
    list.extend(v, items)
    v.counts = counts
    return v


def replay_by_rerun(mod, prop, path):
    """Generic replay for artefacts whose case cannot be re-run in isolation: run the quick tier again and report whether
    a violation with the same signature is found again (exit 1) or not (exit 0)."""
    with open(path) as f:
        v = json.load(f)
    sig = v.get("sig")
    t0 = time.time()
    mod.run("quick")
    rdir = os.path.join(OUT, "replays", prop)
    again = False
    if os.path.isdir(rdir):
        for n in os.listdir(rdir):
            p = os.path.join(rdir, n)
            if os.path.getmtime(p) >= t0 - 1:
                try:
                    with open(p) as f:
                        if json.load(f).get("sig") == sig:
                            again = True
                except (OSError, ValueError):
                    pass
    print(f"[verif] replay by re-run: signature {sig!r} {'found again' if again else 'not found'}")
    return 1 if again else 0


def run_group(argv, timeout, stdin=None, env=None):
    """subprocess.run(..., timeout) for a program that starts child processes: the program runs in its own session and on a
    time-out the WHOLE process group is killed (a hung multi-core cutadapt otherwise leaves its workers behind).
    Returns a CompletedProcess or raises subprocess.TimeoutExpired."""
    import signal

    p = subprocess.Popen(argv, stdout=subprocess.PIPE, stderr=subprocess.PIPE, stdin=stdin, env=env, start_new_session=True)
    try:
        out, err = p.communicate(timeout=timeout)
    except subprocess.TimeoutExpired:
        try:
            os.killpg(p.pid, signal.SIGKILL)
        except OSError:
            pass
        p.communicate()
        raise
    finally:
        # workers that outlive a crashed main process
        try:
            os.killpg(p.pid, signal.SIGKILL)
        except OSError:
            pass
    return subprocess.CompletedProcess(argv, p.returncode, out, err)
