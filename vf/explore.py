"""Stateless re-execution explorer over the virtual multiprocessing layer (E5).

An *execution* is identified by its list of choices at the choice points (points with >= 2 enabled
processes); choice 0 is the default (the running process continues if it can, else the lowest id).
  mode "D": all executions with at most `bound` non-default choices (delay bounding), iterated by the caller
  mode "S": exact state matching without a bound: a choice point whose global state key was seen before
            is not expanded again (equal key => equal futures, because every virtual process is a
            deterministic function of what it has received)
"""
import time


class ExploreResult:
    def __init__(self):
        self.executions = 0
        self.transitions = 0
        self.states = set()
        self.max_points = 0
        self.cap_hit = None
        self.outcomes = {}  # outcome key -> (count, first prefix)
        self.failures = []  # (prefix, description)
        self.frontier_exhausted = True
        self.wall = 0.0

    def merge(self, o):
        self.executions += o.executions
        self.transitions += o.transitions
        self.states |= o.states
        self.max_points = max(self.max_points, o.max_points)
        self.cap_hit = self.cap_hit or o.cap_hit
        for k, (c, p) in o.outcomes.items():
            if k in self.outcomes:
                self.outcomes[k] = (self.outcomes[k][0] + c, self.outcomes[k][1])
            else:
                self.outcomes[k] = (c, p)
        self.failures.extend(o.failures)
        self.frontier_exhausted = self.frontier_exhausted and o.frontier_exhausted


def explore(run_exec, mode, bound=None, root=(), root_devs=0, max_execs=None, budget_s=None, max_failures=5):
    """run_exec(prefix) -> (points, outcome_key, failure_or_None) where points is the list of
    (enabled pids, chosen index, state key) of the complete execution."""
    res = ExploreResult()
    t0 = time.time()
    stack = [(tuple(root), root_devs)]
    seen = res.states
    while stack:
        if max_execs is not None and res.executions >= max_execs:
            res.cap_hit = f"max_execs={max_execs}"
            res.frontier_exhausted = False
            break
        if budget_s is not None and time.time() - t0 > budget_s:
            res.cap_hit = f"time budget {budget_s}s"
            res.frontier_exhausted = False
            break
        prefix, devs = stack.pop()
        points, outcome, failure = run_exec(prefix)
        res.executions += 1
        res.max_points = max(res.max_points, len(points))
        c, p = res.outcomes.get(outcome, (0, prefix))
        res.outcomes[outcome] = (c + 1, p)
        if failure is not None:
            if len(res.failures) < max_failures:
                res.failures.append((list(prefix) + [0] * 0, failure, [pt[1] for pt in points]))
        choices = [pt[1] for pt in points]
        if len(choices) < len(prefix):
            # the execution ended before the prefix was consumed: only legal if it ended exactly there
            pass
        d = devs
        for i in range(len(prefix), len(points)):
            en, chosen, key = points[i]
            res.transitions += 1
            if mode == "S":
                if key in seen:
                    break
                seen.add(key)
            else:
                seen.add(key)
            for alt in range(1, len(en)):
                if mode == "D" and d + 1 > bound:
                    continue
                stack.append((tuple(choices[:i]) + (alt,), d + 1))
            # chosen is always 0 beyond the prefix
    res.wall = time.time() - t0
    return res
