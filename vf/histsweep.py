"""Family H (history) for C01/C02/C07: an adapter object is long-lived - one object serves every read of a run - so its
answer for a read must not depend on the reads it has seen before.

Operation sequences of depth 2, exhaustively: for a read set R the calls are made in a de Bruijn order in which EVERY ordered pair
(r_prev, r) of R x R (including r_prev == r) occurs as two consecutive calls on the same object; each answer is compared with the
answer of a second object that has seen the reads in ascending order (the order the other families use, whose answers the reference
aligner judges there).  For C07 the second object has the prefilter switched off.  R = all reads over ACGT up to a length plus
long reads that contain the adapter (so that long->short and short->long transitions of every kind occur)."""
import pickle

from . import alignsweep, common

MOD = "vf.histsweep"

SHORT = ["ACG", "AACG", "ACGT", "ACAC", "ANG", "ACGN"]


def euler(n):
    """Index sequence of length n*n+1 in which every ordered pair (i, j), i == j included, occurs consecutively."""
    seq = []
    for a in range(n):
        seq.append(a)
        for b in range(a + 1, n):
            seq.append(a)
            seq.append(b)
    seq.append(seq[0])
    return seq


def selfcheck():
    for n in range(1, 8):
        s = euler(n)
        pairs = set(zip(s, s[1:]))
        if len(s) != n * n + 1 or pairs != {(i, j) for i in range(n) for j in range(n)}:
            raise common.HarnessError(f"de Bruijn order is wrong for n={n}")
    return True


def shards(tier, which):
    quick = tier != "thorough"
    out = []
    for a in SHORT:
        for t in alignsweep.ALL_TYPES:
            out.append(dict(fam="H", which=which, type=t, adapter=a, nmax=4 if quick else 5, rates=[0.0, 0.34], overlaps=[1] if quick else [1, 3],
                            wc=[(True, False)] + ([(True, True)] if "N" in a else [])))
    for a in alignsweep.FAMILY_C_ADAPTERS[:3 if quick else 6]:
        for t in alignsweep.ALL_TYPES[:8] if quick else alignsweep.ALL_TYPES:
            out.append(dict(fam="Hlong", which=which, type=t, adapter=a, nmax=0, rates=[0.1, 0.2], overlaps=[3], wc=[(True, False)]))
    return out


_R = {}


def reads_for(d):
    key = (d["adapter"], d["nmax"], d["fam"])
    if key not in _R:
        a = d["adapter"].replace("N", "A").replace("R", "G").replace("Y", "C")
        if d["fam"] == "H":
            R = list(alignsweep.strings("ACGT", d["nmax"]))
            R += ["GG" + a + "TT", a + a, "ACGTACGTACGT", a[:-1] + "T" + a, "T" * 9 + a[:2]]
        else:
            # long adapters: prefixes, suffixes, whole adapter with one edit at a few positions, with and without flanks
            R = {"", "A", "ACGT", "ACGTACGTACGTACGTACGTACGTACGT"}
            for L in (3, 5, 8, len(a)):
                for core in (a[:L], a[len(a) - L:]):
                    for e in (core, core[:1] + core[2:], core[:2] + "T" + core[2:], core[: L // 2] + "G" + core[L // 2 + 1:]):
                        for pre in ("", "GGA", "TTGCATGCAT"):
                            for suf in ("", "TG"):
                                R.add(pre + e + suf)
            R = sorted(R, key=lambda x: (len(x), x))
        _R[key] = R
    return _R[key]


def tup(m):
    return None if m is None else (m.astart, m.astop, m.rstart, m.rstop, m.score, m.errors)


def run_shard(d):
    from cutadapt.adapters import MockKmerFinder

    which = d["which"]
    cls, kw, _ = alignsweep.classes()[d["type"]]
    R = reads_for(d)
    order = euler(len(R))
    res = dict(evals=0, pairs=0, configs=0, matches=0, real_finders=0, viol=common.Viols(cap=3))
    V = res["viol"]
    seen = set()
    for aw_flag, rw in d["wc"]:
        for rate in d["rates"]:
            for ovl in d["overlaps"]:
                for indels in (True, False):
                    mk = lambda: cls(d["adapter"], max_errors=rate, min_overlap=ovl, indels=indels, adapter_wildcards=aw_flag,
                                     read_wildcards=rw, name="x", **kw)
                    try:
                        ad = mk()
                        base_ad = mk()
                    except Exception:
                        continue
                    key = (ad.adapter_wildcards, rw, rate, ad.min_overlap, indels)
                    if key in seen:
                        continue
                    seen.add(key)
                    real = not isinstance(ad.kmer_finder, MockKmerFinder)
                    if which == "C07":
                        if not real:
                            continue
                        base_ad.kmer_finder = MockKmerFinder()
                    res["real_finders"] += real
                    res["configs"] += 1
                    cfg = dict(type=d["type"], adapter=d["adapter"], rate=rate, min_overlap=ovl, indels=indels,
                               adapter_wildcards=aw_flag, read_wildcards=rw)
                    bm = base_ad.match_to
                    base = [tup(bm(r)) for r in R]
                    res["matches"] += sum(1 for b in base if b is not None)
                    objs = [("same object", ad)]
                    if real or "N" in d["adapter"]:
                        objs.append(("object after a pickle round trip", pickle.loads(pickle.dumps(mk()))))
                    for label, obj in objs:
                        mt = obj.match_to
                        prev = None
                        bad = 0
                        for i in order:
                            m = mt(R[i])
                            got = None if m is None else (m.astart, m.astop, m.rstart, m.rstop, m.score, m.errors)
                            if got != base[i]:
                                bad += 1
                                V.append((f"history:{d['type']}:{'indels' if indels else 'noindels'}",
                                          "the answer for a read depends on the read the same adapter object saw before it"
                                          if which != "C07" else
                                          "with the k-mer prefilter the answer for a read depends on the read seen before it (differs "
                                          "from the full alignment alone)",
                                          dict(cfg, read=R[i], previous_read=None if prev is None else R[prev], got=got,
                                               standalone=base[i], object=label, history=True)))
                                if bad > 3:
                                    break
                            prev = i
                        res["evals"] += len(order)
                        res["pairs"] += len(R) * len(R)
    return res


def replay(prop, case):
    from cutadapt.adapters import MockKmerFinder

    c = case
    cls, kw, _ = alignsweep.classes()[c["type"]]

    def mk():
        return cls(c["adapter"], max_errors=c["rate"], min_overlap=c["min_overlap"], indels=c["indels"],
                   adapter_wildcards=c["adapter_wildcards"], read_wildcards=c["read_wildcards"], name="x", **kw)

    fresh = mk()
    if prop == "C07":
        fresh.kmer_finder = MockKmerFinder()
    alone = tup(fresh.match_to(c["read"]))
    ad = mk()
    if str(c.get("object", "")).startswith("object after"):
        ad = pickle.loads(pickle.dumps(ad))
    if c.get("previous_read") is not None:
        ad.match_to(c["previous_read"])
    after = tup(ad.match_to(c["read"]))
    print(f"standalone answer: {alone}; answer after {c.get('previous_read')!r}: {after}")
    return 0 if alone == after else 1
