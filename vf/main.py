"""Entry point: ./check <ID> [--tier quick|thorough] [--replay FILE]"""
import argparse
import importlib
import logging
import sys
import traceback

from . import common


def main():
    ap = argparse.ArgumentParser()
    ap.add_argument("prop")
    ap.add_argument("--tier", default=None, choices=["quick", "thorough"])
    ap.add_argument("--replay", default=None)
    args = ap.parse_args()
    tier = args.tier or common.tier_from_env()
    prop = args.prop.upper()
    status = 2
    try:
        common.rebuild()
        common.ensure_repo_importable()
        logging.root.addHandler(logging.NullHandler())
        mod = importlib.import_module(f"vf.checks.{prop.lower()}")
        if args.replay:
            import json
            with open(args.replay) as fh:
                case = json.load(fh).get("case", {})
            if isinstance(case, dict) and case.get("crash"):
                status = common.replay_crash(case)
            else:
                status = mod.replay(args.replay)
        else:
            status = mod.run(tier)
    except common.ImplementationCrash as e:
        level = {"C06": "model_checking", "C12": "fault_enumeration"}.get(prop, "exploration")
        status = common.report_crash(prop, tier, level, e)
    except common.HarnessError as e:
        print(f"[verif] HARNESS ERROR in {prop}: {e}", file=sys.stderr)
        status = 2
    except SystemExit:
        raise
    except BaseException:  # noqa
        traceback.print_exc()
        print(f"[verif] HARNESS ERROR in {prop} (unexpected exception)", file=sys.stderr)
        status = 2
    finally:
        common.cleanup_workdirs()
    sys.exit(status)


if __name__ == "__main__":
    main()
