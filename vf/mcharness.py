"""Harness shared by C06 and C12 (and the multi-core clauses of other checks): run one cutadapt command
line under the virtual multiprocessing layer for a given schedule prefix and summarise what it did."""
import hashlib
import json
import os
import re
import shutil

from . import clih, common, vmp

_TIME_RE = re.compile(r"^(Finished in|.*µs/read|.*us/read)")


def norm_report(txt):
    return "\n".join(ln for ln in txt.splitlines() if not _TIME_RE.match(ln))


def norm_json(path):
    try:
        j = clih.read_json(path)
    except (OSError, ValueError):
        return None
    j.pop("cores", None)
    j.pop("command_line_arguments", None)
    j.pop("python_version", None)
    inp = j.get("input")
    if isinstance(inp, dict):  # the harness uses a private scratch directory per explorer process
        for k in ("path1", "path2"):
            if isinstance(inp.get(k), str):
                inp[k] = os.path.basename(inp[k])
    return j


def collect_outputs(d, skip=()):
    """Decompressed content of every file in directory d (except skip), as {name: bytes}."""
    out = {}
    for n in sorted(os.listdir(d)):
        if n in skip:
            continue
        p = os.path.join(d, n)
        if os.path.isfile(p):
            try:
                out[n] = clih.read_bytes(p)
            except Exception as e:  # noqa  (truncated compressed output etc.)
                with open(p, "rb") as f:
                    out[n] = b"<<undecodable:" + type(e).__name__.encode() + b">>" + f.read()
    return out


def clear_dir(d):
    for n in os.listdir(d):
        p = os.path.join(d, n)
        if os.path.isdir(p):
            shutil.rmtree(p, ignore_errors=True)
        else:
            os.unlink(p)


class RunSummary:
    __slots__ = ("exit", "exc", "errors", "outputs", "json", "report", "deadlock", "horizon", "divergence", "points",
                 "trace_len", "leaked", "reader_order", "arrival_order", "procs", "chunk_order")

    def outcome_key(self):
        h = hashlib.sha1()
        h.update(repr((self.exit, self.exc, self.deadlock is not None, self.horizon)).encode())
        for n, b in sorted(self.outputs.items()):
            h.update(n.encode() + b"\0" + hashlib.sha1(b).digest())
        h.update(json.dumps(self.json, sort_keys=True, default=str).encode())
        h.update(self.report.encode())
        return h.hexdigest()[:16]


def run_virtual(argv, outdir, prefix=(), bytes_capacity=None, reduce=True, json_name="report.json"):
    """argv must write all its outputs into outdir (which is emptied first)."""
    clear_dir(outdir)
    sched, val, exc = vmp.run(lambda: clih.run_cli(argv), prefix=prefix, bytes_capacity=bytes_capacity, reduce=reduce)
    s = RunSummary()
    s.exit = val.exit if val is not None else None
    s.exc = (val.exc if val is not None else None) or (f"{type(exc).__name__}: {exc}" if exc is not None else None)
    s.errors = val.errors() if val is not None else []
    s.report = norm_report(val.report_text()) if val is not None else ""
    s.outputs = collect_outputs(outdir, skip=(json_name,))
    s.json = norm_json(os.path.join(outdir, json_name))
    s.deadlock = sched.deadlock
    s.horizon = sched.horizon_hit
    s.divergence = sched.divergence
    s.points = sched.points
    s.trace_len = len(sched.trace)
    s.leaked = sched.leaked
    s.procs = [(p.name, p.status(), p.nops) for p in sched.procs]
    # which worker got which chunk (order of worker ids the reader took from the queue), and the order in which the main
    # process received from the workers' result pipes (collapsed runs)
    s.reader_order = tuple(x[1] for p in sched.procs[1:2] for x in p.rlog if x[0] == "queue")
    arr = []
    for ch, _ in (sched.procs[0].rlog if sched.procs else []):
        if not arr or arr[-1] != ch:
            arr.append(ch)
    s.arrival_order = tuple(arr)
    # order in which chunk results reached the main process: per result pipe the protocol is
    # index, number of reads, bytes...; -1, statistics
    order = []
    expect = {}
    for ch, what in (sched.procs[0].rlog if sched.procs else []):
        if not isinstance(what, int) or isinstance(what, bool):
            if isinstance(what, str) and what.startswith("bytes"):
                expect[ch] = "index"
            continue
        st = expect.get(ch, "index")
        if st == "index":
            if what >= 0:
                order.append(what)
                expect[ch] = "nreads"
        else:
            expect[ch] = "index"
    s.chunk_order = tuple(order)
    return s


def run_serial(argv, outdir, json_name="report.json"):
    clear_dir(outdir)
    val = clih.run_cli(argv)
    s = RunSummary()
    s.exit = val.exit
    s.exc = val.exc
    s.errors = val.errors()
    s.report = norm_report(val.report_text())
    s.outputs = collect_outputs(outdir, skip=(json_name,))
    s.json = norm_json(os.path.join(outdir, json_name))
    s.deadlock = None
    s.horizon = False
    s.divergence = None
    s.points = []
    s.trace_len = 0
    s.leaked = 0
    s.procs = []
    s.reader_order = ()
    s.arrival_order = ()
    s.chunk_order = ()
    return s


def diff_summaries(ref, got):
    """Human-readable first difference between the 1-core reference and a multi-core run, or None."""
    if got.divergence:
        return None
    if got.deadlock is not None:
        return f"deadlock: {got.deadlock}"
    if got.horizon:
        return "horizon of scheduling points hit (livelock?)"
    if got.exit != ref.exit:
        return f"exit status {got.exit} (exception {got.exc}; errors {got.errors[:2]}) but {ref.exit} with one core"
    if sorted(got.outputs) != sorted(ref.outputs):
        return f"set of output files differs: {sorted(got.outputs)} vs {sorted(ref.outputs)}"
    for n in sorted(ref.outputs):
        if got.outputs[n] != ref.outputs[n]:
            a, b = ref.outputs[n], got.outputs[n]
            i = next((k for k in range(min(len(a), len(b))) if a[k] != b[k]), min(len(a), len(b)))
            return (f"output file {n} differs from the one-core run at byte {i}: one core ...{a[max(0, i - 20):i + 40]!r}, "
                    f"multi-core ...{b[max(0, i - 20):i + 40]!r} (lengths {len(a)} / {len(b)})")
    if got.json != ref.json:
        ka = _first_json_diff(ref.json, got.json)
        return f"JSON report differs from the one-core run at {ka}"
    if got.report != ref.report:
        la, lb = ref.report.splitlines(), got.report.splitlines()
        k = next((i for i in range(min(len(la), len(lb))) if la[i] != lb[i]), min(len(la), len(lb)))
        return (f"text report differs at line {k}: one core {la[k] if k < len(la) else None!r}, "
                f"multi-core {lb[k] if k < len(lb) else None!r}")
    return None


def _first_json_diff(a, b, path=""):
    if type(a) != type(b):
        return f"{path}: {a!r} vs {b!r}"
    if isinstance(a, dict):
        for k in sorted(set(a) | set(b)):
            if k not in a or k not in b:
                return f"{path}/{k}: missing on one side"
            d = _first_json_diff(a[k], b[k], f"{path}/{k}")
            if d:
                return d
        return None
    if isinstance(a, list):
        if len(a) != len(b):
            return f"{path}: lengths {len(a)} vs {len(b)}"
        for i, (x, y) in enumerate(zip(a, b)):
            d = _first_json_diff(x, y, f"{path}[{i}]")
            if d:
                return d
        return None
    return None if a == b else f"{path}: {a!r} vs {b!r}"


def explore_vs_serial(argv_fn, wd, bound=1, workers=2, compare_reports=False, bytes_capacity=None, max_failures=2):
    """argv_fn(outdir, cores) -> argv. Runs the one-core reference, then every schedule with <= bound deviations of the
    `workers`-core run on the virtual layer; returns (executions, [(schedule, failure text)])."""
    from . import explore, vmp

    refd, rund = os.path.join(wd, "mc-ref"), os.path.join(wd, "mc-run")
    for x in (refd, rund):
        os.makedirs(x, exist_ok=True)
    ref = run_serial(argv_fn(refd, 1), refd, json_name="report.json")
    if ref.exit != 0:
        return 0, [((), f"one-core run failed: {ref.exit} {ref.errors[:1]} {ref.exc}")]

    def run_exec(prefix):
        s = run_virtual(argv_fn(rund, workers), rund, prefix=prefix, bytes_capacity=bytes_capacity, json_name="report.json")
        if s.divergence:
            raise vmp.HarnessNondeterminism(s.divergence)
        if not compare_reports:
            s.json, s.report = ref.json, ref.report
        return s.points, s.outcome_key(), diff_summaries(ref, s)

    r = explore.explore(run_exec, "D", bound=bound)
    return r.executions, [(tuple(ch), fail) for _, fail, ch in r.failures[:max_failures]]
