"""Pairwise option interactions for the routing-based checks (C04, C05, C10, C11).

The hand-written scenario lists of those checks vary the options of THEIR property; a slip in the plumbing of two unrelated
options (a stale variable between two filters, a modifier that returns None for one parameter value, a wrapper that mixes
up R1 and R2 when only one side has the option) shows only when the two options meet.  This family enumerates EVERY pair of
entries of a universe of ~50 option settings (each pair on top of one adapter per read), single- and paired-end, and judges
each run with the reference pipeline / routing model (vf.refpipe, vf.routing)."""
import itertools

from . import routing

# label, option fragment, output fragment, layouts ("s" single, "p" paired)
UNIVERSE = [
    ("u3", dict(cut=[3]), {}, "sp"), ("u-2", dict(cut=[-2]), {}, "sp"), ("u0", dict(cut=[0]), {}, "sp"), ("u3,-2", dict(cut=[3, -2]), {}, "sp"),
    ("U2", dict(cut2=[2]), {}, "p"), ("U0", dict(cut2=[0]), {}, "p"), ("U-3", dict(cut2=[-3]), {}, "p"),
    ("nextseq", dict(nextseq=12), {}, "sp"), ("q10", dict(q="10"), {}, "sp"), ("q10,5", dict(q="10,5"), {}, "sp"),
    ("Q15", dict(Q="15"), {}, "p"), ("Q0", dict(Q="0"), {}, "p"),
    ("times2", dict(times=2), {}, "sp"), ("mask", dict(action="mask"), {}, "sp"), ("lowercase", dict(action="lowercase"), {}, "sp"),
    ("none", dict(action="none"), {}, "sp"), ("retain", dict(action="retain"), {}, "sp"),
    ("polya", dict(poly_a=True), {}, "sp"), ("l8", dict(length=8), {}, "sp"), ("l-8", dict(length=-8), {}, "sp"), ("L6", dict(length2=6), {}, "p"),
    ("trimn", dict(trim_n=True), {}, "sp"), ("suffix", dict(suffix=" {name}"), {}, "sp"), ("zerocap", dict(zero_cap=True), {}, "sp"),
    ("m5", dict(m="5"), {}, "sp"), ("m5:3", dict(m="5:3"), {}, "p"), ("m:3", dict(m=":3"), {}, "p"), ("m5:", dict(m="5:"), {}, "p"),
    ("M10", dict(M="10"), {}, "sp"), ("M10:", dict(M="10:"), {}, "p"), ("M:8", dict(M=":8"), {}, "p"),
    ("maxn1", dict(max_n=1), {}, "sp"), ("maxn.25", dict(max_n=0.25), {}, "sp"), ("maxee", dict(max_ee=0.75), {}, "sp"),
    ("maxaer", dict(max_aer=0.09), {}, "sp"), ("casava", dict(discard_casava=True), {}, "sp"),
    ("dtrimmed", dict(discard_trimmed=True), {}, "sp"), ("duntrimmed", dict(discard_untrimmed=True), {}, "sp"),
    ("pf-both", dict(pair_filter="both"), {}, "p"), ("pf-first", dict(pair_filter="first"), {}, "p"),
    ("noindels", dict(no_indels=True), {}, "sp"),
    ("r1only", dict(_drop="adapters2"), {}, "p"), ("r2only", dict(_drop="adapters"), {}, "p"),
    ("ts-out", dict(m="6"), dict(too_short_output=True), "sp"), ("tl-out", dict(M="9"), dict(too_long_output=True), "sp"),
    ("untrimmed-out", {}, dict(untrimmed_output=True), "sp"),
    ("info", {}, dict(info_file=True), "sp"), ("rest", {}, dict(rest_file=True), "sp"), ("wildcard", {}, dict(wildcard_file=True), "sp"),
    ("demux", {}, dict(demux="name"), "sp"), ("il-out", {}, dict(interleaved_out=True), "p"),
]


def _compatible(a, b, layout):
    """Combinations that cutadapt documents as invalid, or that cannot be expressed, are left out (listed here, not discovered at
    run time)."""
    la, oa, ua, _ = a
    lb, ob, ub, _ = b
    keys = (set(oa) & set(ob)) | (set(ua) & set(ub))
    if keys:
        return False                      # two settings of the same option
    o = dict(oa, **ob)
    u = dict(ua, **ub)
    if sum(1 for x in (o.get("discard_trimmed"), o.get("discard_untrimmed"), u.get("untrimmed_output")) if x) > 1:
        return False                      # "Only one of the --discard-trimmed, --discard-untrimmed and --untrimmed-output options"
    if u.get("demux") and (o.get("discard_trimmed") or u.get("interleaved_out")):
        return False
    if o.get("action") == "retain" and o.get("times", 1) > 1:
        return False                      # rejected by cutadapt: retain cannot be combined with --times
    if o.get("_drop") == "adapters" and (u.get("demux") or u.get("info_file") or u.get("rest_file") or u.get("wildcard_file")):
        return False                      # these describe / route by the R1 adapter
    return True


def scenarios(layouts=("single", "paired")):
    S = []
    for layout in layouts:
        tag = "s" if layout == "single" else "p"
        U = [u for u in UNIVERSE if tag in u[3]]
        for a, b in itertools.combinations(U, 2):
            if not _compatible(a, b, layout):
                continue
            o = dict(e=0.1, O=5)
            o["adapters"] = [("-a", f"ad={routing.AD1}")]
            if layout != "single":
                o["adapters2"] = [("-A", f"bd={routing.AD2}")]
            outs = {}
            for frag in (a, b):
                for k, v in frag[1].items():
                    if k == "_drop":
                        o.pop(v, None)
                    else:
                        o[k] = v
                outs.update(frag[2])
            S.append(dict(label=f"{a[0]}+{b[0]}", opts=o, outs=outs, layout=layout))
    return S


def run(sc, r1, r2, wd, want_json=False):
    if sc.get("rev"):
        # every other scenario reads the corpus back to front: the model judges each read on its own, so anything that
        # depends on what was processed before shows up as a difference
        r1, r2 = r1[::-1], (r2[::-1] if r2 is not None else None)
    return routing.run_scenario(sc["opts"], sc["outs"], sc["layout"], r1, r2 if sc["layout"] != "single" else None, wd, want_json=want_json)


_S = {}


def get(k):
    if "all" not in _S:
        _S["all"] = scenarios()
        for i, sc in enumerate(_S["all"]):
            sc["rev"] = i % 2 == 1
    return _S["all"][k]


def count():
    if "all" not in _S:
        _S["all"] = scenarios()
    return len(_S["all"])
