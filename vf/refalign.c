/* E2: deliberately naive reference for adapter matching.
 *
 * Everything is a full (unbanded) dynamic-programming table per admissible start; equality of an
 * adapter character and a read character comes from a 128x128 table that the Python side builds
 * from the IUPAC definition. No tricks, no early exits.
 *
 * Adapter types (placement predicates, written from the documented meaning of each type):
 *   0 regular 3'      astart==0 && (astop==m || rstop==n)
 *   1 regular 5'      astop==m  && (astart==0 || rstart==0)
 *   2 anchored 5'     astart==0 && astop==m && rstart==0
 *   3 anchored 3'     astart==0 && astop==m && rstop==n
 *   4 non-internal 5' astop==m  && rstart==0
 *   5 non-internal 3' astart==0 && rstop==n
 *   6 anywhere        (astart==0 || rstart==0) && (astop==m || rstop==n)
 *   7 rightmost 5'    as 1
 */
#include <stdint.h>
#include <string.h>

#define MAXL 288
#define INF 1000000

typedef struct {
    int type;
    int m;
    int indels;       /* 1: edit distance, 0: Hamming, equal lengths */
    int min_overlap;
    int n_wild;       /* 1: N characters of the adapter do not count towards the aligned length */
    double rate;
    const char *a;
    const uint8_t *eq; /* eq[ac*128 + rc] */
} cfg_t;

static int placement_ok(int t, int m, int n, int astart, int astop, int rstart, int rstop) {
    switch (t) {
    case 0: return astart == 0 && (astop == m || rstop == n);
    case 1: case 7: return astop == m && (astart == 0 || rstart == 0);
    case 2: return astart == 0 && astop == m && rstart == 0;
    case 3: return astart == 0 && astop == m && rstop == n;
    case 4: return astop == m && rstart == 0;
    case 5: return astart == 0 && rstop == n;
    case 6: return (astart == 0 || rstart == 0) && (astop == m || rstop == n);
    }
    return 0;
}

static inline int ceq(const cfg_t *c, char ac, char rc) {
    return c->eq[((int)(unsigned char)ac & 127) * 128 + ((int)(unsigned char)rc & 127)];
}

/* D[i][j] = distance between a[a0 : a0+i] and r[r0 : r0+j] */
static void fill(const cfg_t *c, const char *r, int a0, int la, int r0, int lr, int D[MAXL + 1][MAXL + 1]) {
    int i, j;
    for (i = 0; i <= la; i++)
        for (j = 0; j <= lr; j++)
            D[i][j] = INF;
    D[0][0] = 0;
    if (c->indels) {
        for (i = 1; i <= la; i++) D[i][0] = i;
        for (j = 1; j <= lr; j++) D[0][j] = j;
    }
    for (i = 1; i <= la; i++) {
        for (j = 1; j <= lr; j++) {
            int v = D[i - 1][j - 1];
            if (v < INF) v += ceq(c, c->a[a0 + i - 1], r[r0 + j - 1]) ? 0 : 1;
            if (c->indels) {
                if (D[i - 1][j] + 1 < v) v = D[i - 1][j] + 1;
                if (D[i][j - 1] + 1 < v) v = D[i][j - 1] + 1;
            }
            D[i][j] = v;
        }
    }
}

static int eff_len(const cfg_t *c, int astart, int astop) {
    int e = astop - astart, i;
    if (c->n_wild)
        for (i = astart; i < astop; i++)
            if (c->a[i] == 'N') e--;
    return e;
}

int ref_distance(const char *a, int la, const char *r, int lr, const uint8_t *eq, int indels) {
    static __thread int D[MAXL + 1][MAXL + 1];
    cfg_t c;
    if (la > MAXL || lr > MAXL) return -1;
    c.a = a; c.eq = eq; c.indels = indels;
    fill(&c, r, 0, la, 0, lr, D);
    return D[la][lr];
}

/* Judge one reported match (C01). Returns 0 if fine, else a reason code:
 * 1 interval out of range, 2 placement rule, 3 overlap, 4 error count wrong, 5 over tolerance */
static int judge_match(const cfg_t *c, const char *r, int n, const int *mt) {
    static __thread int D[MAXL + 1][MAXL + 1];
    int astart = mt[0], astop = mt[1], rstart = mt[2], rstop = mt[3], errors = mt[5];
    int m = c->m, d, e;
    if (!(0 <= astart && astart <= astop && astop <= m && 0 <= rstart && rstart <= rstop && rstop <= n)) return 1;
    if (!placement_ok(c->type, m, n, astart, astop, rstart, rstop)) return 2;
    if (astop - astart < c->min_overlap) return 3;
    fill(c, r, astart, astop - astart, rstart, rstop - rstart, D);
    d = D[astop - astart][rstop - rstart];
    if (d != errors) return 4;
    e = eff_len(c, astart, astop);
    if (!((double)errors <= (double)e * c->rate)) return 5;
    return 0;
}

/* Set of all admissible occurrences of one (config, read). Output summary:
 * out[0] number of admissible occurrences
 * out[1] number of error-free admissible occurrences
 * out[2] leftmost read position p of an error-free FULL copy (Hamming 0 over m columns), -1 if none
 * out[3] rightmost such position, -1 if none
 * out[4..8] one admissible occurrence (astart, astop, rstart, rstop, errors), the first found
 */
static void admissible(const cfg_t *c, const char *r, int n, int *out) {
    static __thread int D[MAXL + 1][MAXL + 1];
    int m = c->m, astart, rstart, i, j, p;
    out[0] = out[1] = 0;
    out[2] = out[3] = -1;
    for (astart = 0; astart <= m; astart++) {
        for (rstart = 0; rstart <= n; rstart++) {
            if (astart != 0 && rstart != 0) continue; /* never skip both prefixes */
            fill(c, r, astart, m - astart, rstart, n - rstart, D);
            for (i = 0; i <= m - astart; i++) {
                for (j = 0; j <= n - rstart; j++) {
                    int astop = astart + i, rstop = rstart + j, e, d;
                    if (!placement_ok(c->type, m, n, astart, astop, rstart, rstop)) continue;
                    if (i < c->min_overlap) continue;
                    d = D[i][j];
                    if (d >= INF) continue;
                    e = eff_len(c, astart, astop);
                    if (!((double)d <= (double)e * c->rate)) continue;
                    if (out[0] == 0) {
                        out[4] = astart; out[5] = astop; out[6] = rstart; out[7] = rstop; out[8] = d;
                    }
                    out[0]++;
                    if (d == 0) out[1]++;
                }
            }
        }
    }
    for (p = 0; p + m <= n; p++) {
        int ok = 1;
        for (i = 0; i < m; i++)
            if (!ceq(c, c->a[i], r[p + i])) { ok = 0; break; }
        if (ok) {
            if (out[2] < 0) out[2] = p;
            out[3] = p;
        }
    }
}

/* Batch judge.
 * reads: concatenated read characters, offs[k]..offs[k+1] is read k.
 * res:   7 ints per read: found, astart, astop, rstart, rstop, score, errors (as reported by the implementation)
 * mode bit 0: judge C01 on res; bit 1: judge C02 on res.
 * flags[k]: 0 fine; C01 codes 1..5; C02 codes 16 + {1 exact occurrence missed, 2 admissible occurrence missed (strong clause),
 *           3 leftmost-exact-copy rule, 4 rightmost rule, 5 anchored exact removal}
 * stats[0] += reads with a reported match; stats[1] += reads whose admissible set is non-empty;
 * stats[2] += reads with admissible but no match where only the weak clause applies (not judged)
 * strong: 1 if "any admissible occurrence must be found" applies to this configuration.
 */
int judge_batch(int type, const char *a, int m, int indels, int min_overlap, int n_wild, double rate, const uint8_t *eq,
                const char *reads, const int *offs, int nreads, const int *res, int mode, int strong,
                int *flags, long long *stats, int *adm_out) {
    cfg_t c;
    int k, bad = 0;
    if (m > MAXL) return -1;
    c.type = type; c.m = m; c.indels = indels; c.min_overlap = min_overlap; c.n_wild = n_wild; c.rate = rate;
    c.a = a; c.eq = eq;
    for (k = 0; k < nreads; k++) {
        const char *r = reads + offs[k];
        int n = offs[k + 1] - offs[k];
        const int *mt = res + 7 * k;
        int f = 0;
        if (n > MAXL) return -1;
        if (mt[0]) stats[0]++;
        if ((mode & 1) && mt[0]) {
            f = judge_match(&c, r, n, mt + 1);
        }
        if (!f && (mode & 2)) {
            int adm[9];
            admissible(&c, r, n, adm);
            if (adm[0]) stats[1]++;
            if (!mt[0]) {
                if (adm[1]) f = 16 + 1;
                else if (adm[0]) {
                    if (strong) f = 16 + 2; else stats[2]++;
                }
            } else {
                int rstart = mt[3], rstop = mt[4];
                if (type == 0 && adm[2] >= 0 && !(rstart <= adm[2])) f = 16 + 3;
                else if (type == 1 && adm[2] >= 0 && !(rstop <= adm[2] + m)) f = 16 + 3;
                else if (type == 7 && adm[3] >= 0 && !(rstop >= adm[3] + m)) f = 16 + 4;
                else if (type == 2 && adm[2] == 0 && !(mt[1] == 0 && mt[2] == m && rstart == 0 && rstop == m && mt[6] == 0)) f = 16 + 5;
                else if (type == 3 && adm[3] >= 0 && adm[3] == n - m && !(mt[1] == 0 && mt[2] == m && rstart == n - m && rstop == n && mt[6] == 0)) f = 16 + 5;
            }
            if (f && adm_out) memcpy(adm_out + 9 * k, adm, sizeof(adm));
        }
        flags[k] = f;
        if (f) bad++;
    }
    return bad;
}

/* C08: for every read and every removed length j (0..maxn), the exact distance between the whole adapter and the
 * read prefix of length j (prefix != 0) or the read suffix of length j (prefix == 0).
 * out[k*(maxn+1)+j] = distance, or 127 if j > len(read) or (no indels and j != m). ASCII comparison via eq table. */
int anchored_dists(const char *a, int m, int indels, int prefix, const uint8_t *eq, const char *reads, const int *offs,
                   int nreads, int maxn, signed char *out) {
    static __thread int D[MAXL + 1][MAXL + 1];
    cfg_t c;
    int k, j;
    if (m > MAXL || maxn > MAXL) return -1;
    c.a = a; c.eq = eq; c.indels = indels; c.m = m;
    for (k = 0; k < nreads; k++) {
        const char *r = reads + offs[k];
        int n = offs[k + 1] - offs[k];
        signed char *o = out + (long)k * (maxn + 1);
        for (j = 0; j <= maxn; j++) o[j] = 127;
        if (prefix) {
            fill(&c, r, 0, m, 0, n, D);
            for (j = 0; j <= n && j <= maxn; j++) o[j] = D[m][j] >= INF ? 127 : (signed char)(D[m][j] > 126 ? 126 : D[m][j]);
        } else {
            for (j = 0; j <= n && j <= maxn; j++) {
                fill(&c, r, 0, m, n - j, j, D);
                o[j] = D[m][j] >= INF ? 127 : (signed char)(D[m][j] > 126 ? 126 : D[m][j]);
            }
        }
    }
    return 0;
}
