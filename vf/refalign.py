"""ctypes binding of the naive C reference (refalign.c) + the equality tables built from the IUPAC
definition (independent of cutadapt._match_tables)."""
import ctypes
import fcntl
import hashlib
import os
import subprocess

from . import common

_HERE = os.path.dirname(os.path.abspath(__file__))
_LIB = None

IUPAC = dict(A="A", C="C", G="G", T="T", U="T", R="AG", Y="CT", S="GC", W="AT", K="GT", M="AC", B="CGT", D="AGT",
             H="ACT", V="ACG", N="ACGT", X="")

TYPES = ["back", "front", "prefix", "suffix", "front_ni", "back_ni", "anywhere", "rightmost"]
TYPE_ID = {t: i for i, t in enumerate(TYPES)}
# types that cannot skip the beginning of the adapter (strong completeness also with indels)
NO_START_SKIP = {"back", "back_ni", "suffix", "prefix", "rightmost"}


def build():
    src = os.path.join(_HERE, "refalign.c")
    cache = os.path.join(common.VERIF, ".cache")
    os.makedirs(cache, exist_ok=True)
    with open(src, "rb") as f:
        tag = hashlib.sha1(f.read()).hexdigest()[:12]
    so = os.path.join(cache, f"refalign_{tag}.so")
    if os.path.exists(so):
        return so
    with open(os.path.join(cache, "refalign.lock"), "w") as lf:
        fcntl.flock(lf, fcntl.LOCK_EX)
        if os.path.exists(so):
            return so
        tmp = so + f".tmp{os.getpid()}"
        r = subprocess.run(["gcc", "-O2", "-shared", "-fPIC", "-o", tmp, src], stdout=subprocess.PIPE,
                           stderr=subprocess.STDOUT, text=True)
        if r.returncode != 0:
            raise common.HarnessError("gcc failed on refalign.c:\n" + r.stdout)
        os.replace(tmp, so)
    return so


def lib():
    global _LIB
    if _LIB is None:
        L = ctypes.CDLL(build())
        L.ref_distance.restype = ctypes.c_int
        L.ref_distance.argtypes = [ctypes.c_char_p, ctypes.c_int, ctypes.c_char_p, ctypes.c_int, ctypes.c_char_p, ctypes.c_int]
        L.judge_batch.restype = ctypes.c_int
        L.judge_batch.argtypes = [ctypes.c_int, ctypes.c_char_p, ctypes.c_int, ctypes.c_int, ctypes.c_int, ctypes.c_int,
                                  ctypes.c_double, ctypes.c_char_p, ctypes.c_char_p, ctypes.c_void_p, ctypes.c_int,
                                  ctypes.c_void_p, ctypes.c_int, ctypes.c_int, ctypes.c_void_p, ctypes.c_void_p, ctypes.c_void_p]
        L.anchored_dists.restype = ctypes.c_int
        L.anchored_dists.argtypes = [ctypes.c_char_p, ctypes.c_int, ctypes.c_int, ctypes.c_int, ctypes.c_char_p, ctypes.c_char_p,
                                     ctypes.c_void_p, ctypes.c_int, ctypes.c_int, ctypes.c_void_p]
        _LIB = L
    return _LIB


def char_eq(ac, rc, aw, rw):
    """Does adapter character ac (as stored: upper case) equal read character rc under the configured
    wildcard rules?  aw: IUPAC codes in the adapter are wildcards; rw: IUPAC codes in the read are."""
    ru = rc.upper()
    if not aw and not rw:
        return ac == ru
    if ru == "U":
        ru = "T"
    if ac == "U":
        ac = "T"
    if aw and not rw:
        # adapter: IUPAC sets, N matches any character at all; read: only plain nucleotides mean something
        if ac == "N":
            return True
        if ac not in IUPAC or ru not in "ACGT":
            return False
        return ru in IUPAC[ac]
    if rw and not aw:
        if ru == "N":
            return True
        if ru not in IUPAC or ac not in "ACGT":
            return False
        return ac in IUPAC[ru]
    if ac not in IUPAC or ru not in IUPAC:
        return False
    return bool(set(IUPAC[ac]) & set(IUPAC[ru]))


_EQ = {}


def eq_table(aw, rw):
    key = (bool(aw), bool(rw))
    if key not in _EQ:
        t = bytearray(128 * 128)
        for a in range(128):
            for r in range(128):
                if a == 0 or r == 0:
                    continue
                t[a * 128 + r] = 1 if char_eq(chr(a), chr(r), *key) else 0
        _EQ[key] = bytes(t)
    return _EQ[key]


def distance(a, r, aw, rw, indels):
    return lib().ref_distance(a.encode(), len(a), r.encode(), len(r), eq_table(aw, rw), 1 if indels else 0)


def py_distance(a, r, aw, rw, indels):
    """Pure-Python twin of ref_distance used to cross-check the C reference at every run."""
    INF = 10 ** 6
    m, n = len(a), len(r)
    D = [[INF] * (n + 1) for _ in range(m + 1)]
    D[0][0] = 0
    if indels:
        for i in range(1, m + 1):
            D[i][0] = i
        for j in range(1, n + 1):
            D[0][j] = j
    for i in range(1, m + 1):
        for j in range(1, n + 1):
            c = D[i - 1][j - 1] + (0 if char_eq(a[i - 1], r[j - 1], aw, rw) else 1) if D[i - 1][j - 1] < INF else INF
            if indels:
                c = min(c, D[i - 1][j] + 1, D[i][j - 1] + 1)
            D[i][j] = c
    return D[m][n]


class ReadSet:
    """A fixed list of reads prepared once for batch judging."""

    def __init__(self, reads):
        self.reads = list(reads)
        blob = "".join(self.reads).encode("ascii")
        self.blob = blob
        offs = [0]
        for r in self.reads:
            offs.append(offs[-1] + len(r))
        self.n = len(self.reads)
        self.offs = (ctypes.c_int * (self.n + 1))(*offs)
        self.res = (ctypes.c_int * (7 * self.n))()
        self.flags = (ctypes.c_int * self.n)()
        self.adm = (ctypes.c_int * (9 * self.n))()


C01_REASON = {1: "interval outside read/adapter", 2: "placement rule of the adapter type violated",
              3: "fewer adapter bases than the minimum overlap", 4: "reported errors differ from the true distance",
              5: "errors exceed rate x non-N aligned adapter bases"}
C02_REASON = {17: "error-free admissible occurrence exists but no match reported",
              18: "admissible occurrence within tolerance exists but no match reported",
              19: "cut position is after the leftmost error-free full copy",
              20: "rightmost: cut position is before the end of the rightmost error-free full copy",
              21: "error-free anchored occurrence not removed exactly"}


def judge(rs, type_name, a, indels, min_overlap, n_wild, rate, aw, rw, mode, stats):
    """rs.res must have been filled. Returns list of (read_index, flag, adm tuple or None)."""
    t = TYPE_ID[type_name]
    strong = 1 if (not indels or type_name in NO_START_SKIP) else 0
    bad = lib().judge_batch(t, a.encode(), len(a), 1 if indels else 0, min_overlap, 1 if n_wild else 0, float(rate),
                            eq_table(aw, rw), rs.blob, rs.offs, rs.n, rs.res, mode, strong, rs.flags, stats, rs.adm)
    if bad < 0:
        raise common.HarnessError("refalign: sequence longer than MAXL")
    out = []
    if bad:
        for k in range(rs.n):
            f = rs.flags[k]
            if f:
                out.append((k, f, tuple(rs.adm[9 * k: 9 * k + 9]) if f >= 16 else None))
    return out


def anchored_dists(rs, a, indels, prefix, maxn):
    """bytes object of size rs.n*(maxn+1): distance of adapter a to the read prefix/suffix of every length (127 = impossible)."""
    out = (ctypes.c_byte * (rs.n * (maxn + 1)))()
    r = lib().anchored_dists(a.encode(), len(a), 1 if indels else 0, 1 if prefix else 0, eq_table(False, False), rs.blob,
                             rs.offs, rs.n, maxn, out)
    if r != 0:
        raise common.HarnessError("anchored_dists: sequence too long")
    return bytes(out)
