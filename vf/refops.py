"""Boring declarative reference definitions of the individual read operations (part of E2/E4).
Written from the property statements and doc/algorithms.rst / doc/guide.rst, not from the code."""
import math


# ---------------------------------------------------------------- quality trimming (C13)

def qual3(q, cutoff):
    """3' trimming: q is a list of ints. Returns the index at which the kept part stops.
    Candidates: suffix starts scanned from the end until the running sum of (q - cutoff) first
    becomes positive; choose minimal (negative) sum, shortest suffix on ties."""
    n = len(q)
    best_sum = 0
    best_i = n
    s = 0
    for i in range(n - 1, -1, -1):
        s += q[i] - cutoff
        if s > 0:
            break
        if s < best_sum:  # strictly smaller: a longer suffix only wins if its sum is smaller
            best_sum = s
            best_i = i
    return best_i


def qual5(q, cutoff):
    return len(q) - qual3(q[::-1], cutoff)


def qualtrim(q, cutoff_front, cutoff_back):
    start = qual5(q, cutoff_front)
    stop = qual3(q, cutoff_back)
    if start >= stop:
        return (0, 0)
    return (start, stop)


def nextseq3(seq, q, cutoff):
    q2 = [cutoff - 1 if b == "G" else v for v, b in zip(q, seq)]
    return qual3(q2, cutoff)


# ---------------------------------------------------------------- poly-A (C14)

def polya3(s):
    """Index where the poly-A tail starts (len(s) if none)."""
    n = len(s)
    best = None
    for i in range(n - 1, -1, -1):
        suf = s[i:]
        other = sum(1 for ch in suf if ch != "A")
        if other * 5 > len(suf):
            continue
        score = (len(suf) - other) - 2 * other
        if score <= 0:
            continue
        if best is None or score > best[0]:
            best = (score, i)
    if best is None or n - best[1] < 3:
        return n
    return best[1]


def polyt5(s):
    """End index of the poly-T head (0 if none)."""
    n = len(s)
    best = None
    for j in range(1, n + 1):
        pre = s[:j]
        other = sum(1 for ch in pre if ch != "T")
        if other * 5 > len(pre):
            continue
        score = (len(pre) - other) - 2 * other
        if score <= 0:
            continue
        if best is None or score > best[0]:
            best = (score, j)
    if best is None or best[1] < 3:
        return 0
    return best[1]


def trim_n(s):
    i = 0
    n = len(s)
    while i < n and s[i] == "N":
        i += 1
    j = n
    while j > i and s[j - 1] == "N":
        j -= 1
    return i, j


def expected_errors(qual, base=33):
    return math.fsum(10 ** (-(ord(ch) - base) / 10) for ch in qual)


def n_count(s):
    return sum(1 for ch in s if ch in "Nn")


# ---------------------------------------------------------------- misc

_COMP = str.maketrans("ACGTUMRWSYKVHDBNacgtumrwsykvhdbn", "TGCAAKYWSRMBDHVNtgcaakywsrmbdhvn")


def revcomp(s):
    return s.translate(_COMP)[::-1]
