"""E4: reference model of the *documented* read-processing pipeline.

A run is described by an option dictionary (see `argv_from`); the model applies the individually specified
read operations (vf.refops) in the documented order, then the documented filter chain, and says where each
read (pair) must end up.  Adapter trimming uses each adapter's OWN match_to result (verified by C01/C02)
and applies the stated combination rules (best-of, rounds, actions, linked adapters) itself.

Only the combination logic is modelled here; nothing is taken from cutadapt.pipeline/steps/cli.
"""
import re
from fractions import Fraction

from . import refops

# ------------------------------------------------------------------------------------------------
# option dictionary -> command line
# ------------------------------------------------------------------------------------------------
# opts keys (all optional):
#   cut=[ints], cut2=[ints], nextseq=int, q="10" | "5,10", Q=..., quality_base=33|64
#   adapters=[(flag, spec)] with flag in -a -g -b ; adapters2=[(flag, spec)] with flag in -A -G -B
#   times=int, action=str, e=float, O=int, no_indels=bool, revcomp=bool, pair_adapters=bool, no_index=bool
#   poly_a=bool, length=int, length2=int, trim_n=bool, length_tag=str, strip_suffix=[str], prefix=str, suffix=str,
#   rename=str, zero_cap=bool
#   m="5"|"5:3", M=..., max_n=float, max_ee=float, max_aer=float, discard_casava=bool, discard_trimmed=bool,
#   discard_untrimmed=bool, pair_filter=str
#   (output files are added by the caller)

MOD_ORDER = ["cut", "cut2", "nextseq", "q", "Q", "adapters", "adapters2", "poly_a", "length", "length2", "trim_n", "length_tag",
             "strip_suffix", "prefix", "suffix", "rename", "zero_cap"]


def _argv_of(key, v):
    if key == "cut":
        return [x for c in v for x in ("-u", str(c))]
    if key == "cut2":
        return [x for c in v for x in ("-U", str(c))]
    if key == "nextseq":
        return ["--nextseq-trim", str(v)]
    if key == "q":
        return ["-q", v]
    if key == "Q":
        return ["-Q", v]
    if key == "quality_base":
        return ["--quality-base", str(v)]
    if key in ("adapters", "adapters2"):
        return [x for flag, spec in v for x in (flag, spec)]
    if key == "times":
        return ["--times", str(v)]
    if key == "action":
        return [f"--action={v}"]
    if key == "e":
        return ["-e", repr(v)]
    if key == "O":
        return ["-O", str(v)]
    if key == "length":
        return ["--length", str(v)]
    if key == "length2":
        return ["-L", str(v)]
    if key == "length_tag":
        return ["--length-tag", v]
    if key == "strip_suffix":
        return [x for s in v for x in ("--strip-suffix", s)]
    if key == "prefix":
        return ["--prefix", v]
    if key == "suffix":
        return ["--suffix", v]
    if key == "rename":
        return ["--rename", v]
    if key == "m":
        return ["-m", v]
    if key == "M":
        return ["-M", v]
    if key == "max_n":
        return ["--max-n", repr(v)]
    if key == "max_ee":
        return ["--max-ee", repr(v)]
    if key == "max_aer":
        return ["--max-aer", repr(v)]
    if key == "pair_filter":
        return [f"--pair-filter={v}"]
    flags = dict(no_indels="--no-indels", revcomp="--revcomp", pair_adapters="--pair-adapters", no_index="--no-index",
                 poly_a="--poly-a", trim_n="--trim-n", zero_cap="--zero-cap", discard_casava="--discard-casava",
                 discard_trimmed="--discard-trimmed", discard_untrimmed="--discard-untrimmed", match_read_wildcards="--match-read-wildcards",
                 no_match_adapter_wildcards="-N", interleaved="--interleaved")
    if key in flags:
        return [flags[key]] if v else []
    raise KeyError(key)


def argv_from(opts, order=None):
    keys = list(opts) if order is None else list(order) + [k for k in opts if k not in order]
    out = []
    for k in keys:
        if k in opts and opts[k] is not None:
            out += _argv_of(k, opts[k])
    return out


# ------------------------------------------------------------------------------------------------
# adapter trimming reference (combination rules only)
# ------------------------------------------------------------------------------------------------

class RMatch:
    """What the reference keeps of one applied match."""

    def __init__(self, adapter, kind, rstart, rstop, score, errors, astart=None, astop=None, parts=None):
        self.adapter = adapter      # the adapter object given by the user (a LinkedAdapter for linked matches)
        self.kind = kind            # "front" (removes everything up to rstop), "back" (removes from rstart), "linked"
        self.rstart, self.rstop, self.score, self.errors = rstart, rstop, score, errors
        self.astart, self.astop = astart, astop
        self.parts = parts          # linked: (front RMatch or None, back RMatch or None), back coordinates relative to remainder
        self.seq_len = None         # length of the sequence it was found in

    @property
    def name(self):
        return self.adapter.name


def _kind_of_single(adapter, m):
    """front/back from the documented meaning of the adapter type (anywhere: 5' iff the match starts at the first base)."""
    from cutadapt import adapters as A

    if isinstance(adapter, A.AnywhereAdapter):
        return "front" if m.rstart == 0 else "back"
    if isinstance(adapter, A.FrontAdapter):
        return "front"
    if isinstance(adapter, A.BackAdapter):
        return "back"
    raise TypeError(type(adapter))


def match_one(adapter, seq):
    """Reference result of searching ONE user-given adapter (single or linked) in seq."""
    from cutadapt import adapters as A

    if isinstance(adapter, A.LinkedAdapter):
        fm = adapter.front_adapter.match_to(seq)
        if fm is None and adapter.front_required:
            return None
        rest = seq
        off = 0
        f = None
        if fm is not None:
            f = RMatch(adapter, "front", fm.rstart, fm.rstop, fm.score, fm.errors, fm.astart, fm.astop)
            f.seq_len = len(seq)
            off = fm.rstop
            rest = seq[off:]
        bm = adapter.back_adapter.match_to(rest)  # the 3' part is searched only in what the 5' part left
        b = None
        if bm is not None:
            b = RMatch(adapter, "back", bm.rstart, bm.rstop, bm.score, bm.errors, bm.astart, bm.astop)
            b.seq_len = len(rest)
        if b is None and (adapter.back_required or f is None):
            return None
        r = RMatch(adapter, "linked", None, None, (f.score if f else 0) + (b.score if b else 0),
                   (f.errors if f else 0) + (b.errors if b else 0), parts=(f, b))
        r.seq_len = len(seq)
        r.offset = off
        r.match_sequence = (seq[fm.rstart:fm.rstop] if fm is not None else "") + "," + (rest[bm.rstart:bm.rstop] if bm is not None else "")
        return r
    m = adapter.match_to(seq)
    if m is None:
        return None
    r = RMatch(adapter, _kind_of_single(adapter, m), m.rstart, m.rstop, m.score, m.errors, m.astart, m.astop)
    r.seq_len = len(seq)
    r.match_sequence = seq[m.rstart:m.rstop]
    return r


def kept_interval(rm, n):
    """Interval of a sequence of length n that the trim action keeps for this match."""
    if rm.kind == "front":
        return rm.rstop, n
    if rm.kind == "back":
        return 0, rm.rstart
    f, b = rm.parts
    a = f.rstop if f else 0
    e = a + b.rstart if b else n
    return a, e


def best_match(adapters, seq):
    best = None
    for ad in adapters:
        m = match_one(ad, seq)
        if m is None:
            continue
        if best is None or m.score > best.score or (m.score == best.score and m.errors < best.errors):
            best = m
    return best


def adapter_rounds(adapters, seq, times):
    """One adapter removed per round on the already trimmed read.  Returns (matches, [a,b) kept interval in seq)."""
    a, b = 0, len(seq)
    matches = []
    for _ in range(times):
        cur = seq[a:b]
        m = best_match(adapters, cur)
        if m is None:
            break
        ka, kb = kept_interval(m, len(cur))
        m.abs_offset = a            # where the searched sequence starts in the original read
        matches.append(m)
        a, b = a + ka, a + kb
    return matches, (a, b)


def apply_action(seq, qual, matches, kept, action):
    """Documented effect of --action on the ORIGINAL read over the union of removed parts."""
    a, b = kept
    n = len(seq)
    if not matches or action in (None, "none"):
        return seq, qual
    if action == "trim":
        return seq[a:b], (qual[a:b] if qual is not None else None)
    if action == "mask":
        return "N" * a + seq[a:b] + "N" * (n - b), qual
    if action == "lowercase":
        return seq[:a].lower() + seq[a:b].upper() + seq[b:].lower(), qual
    last = matches[-1]
    off = last.abs_offset
    if action == "retain":
        # like trim, but the adapter itself stays
        if last.kind == "front":
            s, e = off + last.rstart, off + last.seq_len
        elif last.kind == "back":
            s, e = off, off + last.rstop
        else:
            f, bk = last.parts
            s = off + (f.rstart if f else 0)
            e = off + ((f.rstop if f else 0) + bk.rstop if bk else last.seq_len)
        return seq[s:e], (qual[s:e] if qual is not None else None)
    if action == "crop":
        s, e = off + last.rstart, off + last.rstop
        return seq[s:e], (qual[s:e] if qual is not None else None)
    raise ValueError(action)


# ------------------------------------------------------------------------------------------------
# the per-read model
# ------------------------------------------------------------------------------------------------

class Rec:
    __slots__ = ("name", "seq", "qual", "matches", "cut_prefix", "cut_suffix", "is_rc", "orig", "qtrim", "polya")

    def __init__(self, name, seq, qual):
        self.name, self.seq, self.qual = name, seq, qual
        self.matches = []
        self.cut_prefix = self.cut_suffix = None
        self.is_rc = None
        self.orig = (name, seq, qual)
        self.qtrim = 0   # bases removed by quality / NextSeq trimming
        self.polya = 0   # bases removed by poly-A / poly-T trimming

    def slice(self, a, b):
        self.seq = self.seq[a:b]
        if self.qual is not None:
            self.qual = self.qual[a:b]

    def tup(self):
        return (self.name, self.seq, self.qual)


def parse_q(s):
    parts = [int(x) for x in s.split(",")]
    return (0, parts[0]) if len(parts) == 1 else (parts[0], parts[1])


def _qvals(qual, base):
    return [ord(c) - base for c in qual]


class Model:
    """opts: option dictionary; adapters1/adapters2: lists of real adapter objects for R1/R2 (built by the caller from the
    same specifications the command line gets)."""

    def __init__(self, opts, adapters1=(), adapters2=(), paired=False):
        self.o = opts
        self.ad = (list(adapters1), list(adapters2))
        self.paired = paired
        self.base = opts.get("quality_base", 33)

    # ---- modifications -------------------------------------------------------------------------
    STEPS = ["cut", "nextseq", "quality", "adapter", "poly_a", "length", "trim_n", "length_tag", "strip_suffix",
             "prefix_suffix", "rename", "zero_cap"]

    def step(self, name, rec, mate):
        o = self.o
        if name == "cut":
            for c in (o.get("cut") if mate == 0 else o.get("cut2")) or []:
                if c > 0:
                    rec.cut_prefix = rec.seq[:c]
                    rec.slice(c, len(rec.seq))
                elif c < 0:
                    rec.cut_suffix = rec.seq[c:]
                    rec.slice(0, max(0, len(rec.seq) + c))
        elif name == "nextseq":
            if o.get("nextseq") is not None and rec.qual is not None:
                n0 = len(rec.seq)
                rec.slice(0, refops.nextseq3(rec.seq, _qvals(rec.qual, self.base), o["nextseq"]))
                rec.qtrim += n0 - len(rec.seq)
        elif name == "quality":
            qspec = o.get("q")
            if mate == 1 and o.get("Q") is not None:
                qspec = o["Q"]
            if qspec is not None and qspec != "0" and rec.qual is not None:
                cf, cb = parse_q(qspec)
                a, b = refops.qualtrim(_qvals(rec.qual, self.base), cf, cb)
                rec.qtrim += len(rec.seq) - (b - a)
                rec.slice(a, b)
        elif name == "adapter":
            ads = self.ad[mate]
            if ads and not o.get("pair_adapters"):
                matches, kept = adapter_rounds(ads, rec.seq, o.get("times", 1))
                rec.seq, rec.qual = apply_action(rec.seq, rec.qual, matches, kept, o.get("action", "trim"))
                rec.matches = matches
        elif name == "poly_a":
            if o.get("poly_a"):
                n0 = len(rec.seq)
                if mate == 0:
                    rec.slice(0, refops.polya3(rec.seq))
                else:
                    rec.slice(refops.polyt5(rec.seq), len(rec.seq))
                rec.polya += n0 - len(rec.seq)
        elif name == "length":
            L = o.get("length")
            if mate == 1 and o.get("length2") is not None:
                L = o["length2"]
            if L is not None:
                if L >= 0:
                    rec.slice(0, L)
                else:
                    rec.slice(max(0, len(rec.seq) + L), len(rec.seq))
        elif name == "trim_n":
            if o.get("trim_n"):
                a, b = refops.trim_n(rec.seq)
                rec.slice(a, b)
        elif name == "length_tag":
            tag = o.get("length_tag")
            if tag and tag in rec.name:
                rec.name = re.sub(re.escape(tag) + r"[0-9]*", tag + str(len(rec.seq)), rec.name)
        elif name == "strip_suffix":
            for sfx in o.get("strip_suffix") or []:
                if sfx and rec.name.endswith(sfx):
                    rec.name = rec.name[: -len(sfx)]
        elif name == "prefix_suffix":
            if o.get("prefix") or o.get("suffix"):
                an = rec.matches[-1].name if rec.matches else "no_adapter"
                rec.name = ((o.get("prefix") or "").replace("{name}", an) + rec.name
                            + (o.get("suffix") or "").replace("{name}", an))
        elif name == "rename":
            t = o.get("rename")
            if t and not self.paired:
                fields = rec.name.split(maxsplit=1)
                id_, comment = (fields[0], fields[1]) if len(fields) == 2 else (rec.name, "")
                ms = ""
                if rec.matches:
                    last = rec.matches[-1]
                    ms = getattr(last, "match_sequence", "")
                rec.name = (t.replace("\\t", "\t").replace("{header}", rec.name).replace("{id}", id_).replace("{comment}", comment)
                            .replace("{cut_prefix}", rec.cut_prefix or "").replace("{cut_suffix}", rec.cut_suffix or "")
                            .replace("{adapter_name}", rec.matches[-1].name if rec.matches else "no_adapter")
                            .replace("{rc}", "rc" if rec.is_rc else "").replace("{match_sequence}", ms))
        elif name == "zero_cap":
            if o.get("zero_cap") and rec.qual is not None:
                rec.qual = "".join(chr(self.base) if ord(c) < self.base else c for c in rec.qual)
        else:
            raise KeyError(name)

    def process(self, name, seq, qual, mate=0, order=None):
        rec = Rec(name, seq, qual)
        for st in (order or self.STEPS):
            self.step(st, rec, mate)
        return rec

    def run_steps(self, rec, mate, names):
        for st in names:
            self.step(st, rec, mate)
        return rec

    def process_pair_adapters(self, r1, r2):
        """--pair-adapters: the pair of same-rank adapters with the best total score (ties: fewer errors, then first) is applied
        to both mates, or nothing is applied."""
        i = self.STEPS.index("adapter")
        a = self.run_steps(Rec(*r1), 0, self.STEPS[:i])
        b = self.run_steps(Rec(*r2), 1, self.STEPS[:i])
        best = None
        for ad1, ad2 in zip(self.ad[0], self.ad[1]):
            m1 = match_one(ad1, a.seq)
            if m1 is None:
                continue
            m2 = match_one(ad2, b.seq)
            if m2 is None:
                continue
            key = (m1.score + m2.score, -(m1.errors + m2.errors))
            if best is None or key > best[0]:
                best = (key, m1, m2)
        if best is not None:
            for rec, m in ((a, best[1]), (b, best[2])):
                m.abs_offset = 0
                kept = kept_interval(m, len(rec.seq))
                rec.seq, rec.qual = apply_action(rec.seq, rec.qual, [m], kept, self.o.get("action", "trim"))
                rec.matches = [m]
        self.run_steps(a, 0, self.STEPS[i + 1:])
        self.run_steps(b, 1, self.STEPS[i + 1:])
        return a, b

    def process_single(self, name, seq, qual):
        return self.process(name, seq, qual, 0)

    # ---- filters -------------------------------------------------------------------------------
    def predicates(self, rec, mate):
        """Documented per-read criteria (None = filter not requested for this mate)."""
        o = self.o
        P = {}

        def bound(spec, mate):
            if spec is None:
                return None
            parts = spec.split(":")
            if len(parts) == 1:
                return int(parts[0])
            v = parts[mate]
            return int(v) if v != "" else None

        m = bound(o.get("m"), mate)
        P["too_short"] = None if m is None else len(rec.seq) < m
        M = bound(o.get("M"), mate)
        P["too_long"] = None if M is None else len(rec.seq) > M
        if o.get("max_n") is not None:
            c = refops.n_count(rec.seq)
            mx = o["max_n"]
            # a value below 1 is a fraction of the read length: compared exactly (the decimal the user typed), not in floating point
            P["too_many_n"] = (len(rec.seq) > 0 and Fraction(c, len(rec.seq)) > Fraction(repr(mx))) if mx < 1 else c > mx
        else:
            P["too_many_n"] = None
        if o.get("max_ee") is not None and rec.qual is not None:
            P["too_many_expected_errors"] = refops.expected_errors(rec.qual, self.base) > o["max_ee"]
        else:
            P["too_many_expected_errors"] = None
        if o.get("max_aer") is not None and rec.qual is not None:
            P["too_high_average_error_rate"] = (len(rec.seq) > 0 and
                                                refops.expected_errors(rec.qual, self.base) / len(rec.seq) > o["max_aer"])
        else:
            P["too_high_average_error_rate"] = None
        if o.get("discard_casava"):
            _, _, right = rec.name.partition(" ")
            P["casava_filtered"] = right[1:4] == ":Y:"
        else:
            P["casava_filtered"] = None
        return P


FILTER_ORDER = ["too_short", "too_long", "too_many_n", "too_many_expected_errors", "too_high_average_error_rate", "casava_filtered"]


def combine(mode, p1, p2):
    """Documented pair decision from the two per-read outcomes (None = criterion not applicable to that mate)."""
    if p2 is None:
        return bool(p1)
    if p1 is None:
        return bool(p2)
    if mode == "any":
        return p1 or p2
    if mode == "both":
        return p1 and p2
    if mode == "first":
        return p1
    raise ValueError(mode)
