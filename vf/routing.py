"""Reference for *where each read (pair) must end up* and what the report must say, plus the driver that runs
one command line and compares.  Used by C04 (accounting), C05 (pair synchronisation / unit decisions),
C11 (filter criteria and order) and C15 (demultiplexing).

A scenario is (opts, outs, layout):
  opts   option dictionary as in vf.refpipe (modifications + filters)
  outs   dict: demux in {None,"name","combinatorial"}, too_short_output, too_long_output, untrimmed_output (bools),
               interleaved_out (bool)
  layout "single" | "paired" | "interleaved"
"""
import os

from . import clih, refpipe

FILTERS = refpipe.FILTER_ORDER


def build_argv(opts, outs, layout, wd, inputs, report=None, json_path=None, cores=1):
    paired = layout != "single"
    a = refpipe.argv_from(opts)
    d = wd
    demux = outs.get("demux")
    if demux == "name" and outs.get("name_twice"):
        main1, main2 = os.path.join(d, "out-{name}-{name}.1.fq"), os.path.join(d, "out-{name}-{name}.2.fq")
    elif demux == "name":
        main1, main2 = os.path.join(d, "out-{name}.1.fq"), os.path.join(d, "out-{name}.2.fq")
    elif demux == "combinatorial":
        main1, main2 = os.path.join(d, "out-{name1}-{name2}.1.fq"), os.path.join(d, "out-{name1}-{name2}.2.fq")
    else:
        main1, main2 = os.path.join(d, "out.1.fq"), os.path.join(d, "out.2.fq")
    if paired and outs.get("interleaved_out") and not demux:
        a += ["--interleaved", "-o", main1]
    else:
        a += ["-o", main1]
        if paired:
            a += ["-p", main2]
        if layout == "interleaved":
            a += ["--interleaved"]
    for key, flag in (("too_short_output", "--too-short"), ("too_long_output", "--too-long"), ("untrimmed_output", "--untrimmed")):
        if outs.get(key):
            stem = flag[2:].replace("-", "_")
            a += [f"{flag}-output", os.path.join(d, f"{stem}.1.fq")]
            if paired:
                a += [f"{flag}-paired-output", os.path.join(d, f"{stem}.2.fq")]
    for key, flag in (("info_file", "--info-file"), ("rest_file", "--rest-file"), ("wildcard_file", "--wildcard-file")):
        if outs.get(key):
            a += [flag, os.path.join(d, key + ".txt")]
    if report:
        a += [f"--report={report}"]
    if json_path:
        a += ["--json", json_path]
    if cores != 1:
        a += ["-j", str(cores)]
    return a + list(inputs)


def expected_files(opts, outs, layout, names1, names2):
    """Names (without directory) of every output file that must exist, and the category each one holds."""
    paired = layout != "single"
    files = {}

    def add(cat, stem):
        files[cat] = (stem + ".1.fq", stem + ".2.fq" if paired else None)

    demux = outs.get("demux")
    if demux == "name":
        tw = outs.get("name_twice")
        for n in names1:
            add(("out", n), f"out-{n}-{n}" if tw else f"out-{n}")
        if not opts.get("discard_untrimmed") and not outs.get("untrimmed_output"):
            add(("out", None), "out-unknown-unknown" if tw else "out-unknown")
    elif demux == "combinatorial":
        for n1 in names1:
            for n2 in names2:
                add(("out", n1, n2), f"out-{n1}-{n2}")
        if not opts.get("discard_untrimmed"):
            add(("out", None, None), "out-unknown-unknown")
            for n2 in names2:
                add(("out", None, n2), f"out-unknown-{n2}")
            for n1 in names1:
                add(("out", n1, None), f"out-{n1}-unknown")
    else:
        if paired and outs.get("interleaved_out"):
            files[("out",)] = ("out.1.fq", "INTERLEAVED")
        else:
            add(("out",), "out")
    for key in ("too_short", "too_long", "untrimmed"):
        if outs.get(key + "_output"):
            add((key,), key)
    return files


class Router:
    def __init__(self, opts, outs, layout, adapters1, adapters2):
        self.o, self.outs, self.layout = opts, outs, layout
        self.paired = layout != "single"
        self.model = refpipe.Model(opts, adapters1, adapters2, paired=self.paired)
        self.has1, self.has2 = bool(adapters1), bool(adapters2)
        mode = opts.get("pair_filter") or "any"
        self.mode = mode
        # 'both' is forced for the untrimmed filters when adapters are given for one side only
        self.untrimmed_mode = "both" if (self.paired and (not self.has1 or not self.has2)) else mode

    def process(self, r1, r2=None):
        if r2 is not None and self.o.get("pair_adapters"):
            return self.model.process_pair_adapters(r1, r2)
        a = self.model.process(r1[0], r1[1], r1[2], 0)
        b = self.model.process(r2[0], r2[1], r2[2], 1) if r2 is not None else None
        return a, b

    def destination(self, a, b):
        """a, b: processed Rec objects. Returns (category tuple, counted_as) where counted_as is 'written' or a filter name."""
        o, outs = self.o, self.outs
        p1 = self.model.predicates(a, 0)
        p2 = self.model.predicates(b, 1) if b is not None else None
        for f in FILTERS:
            x = p1[f]
            y = p2[f] if p2 is not None else None
            if x is None and y is None:
                continue
            hit = bool(x) if p2 is None else refpipe.combine(self.mode, x, y)
            if hit:
                if f in ("too_short", "too_long") and outs.get(f + "_output"):
                    return (f,), f
                return ("discard", f), f
        t1 = bool(a.matches)
        t2 = bool(b.matches) if b is not None else None
        demux = outs.get("demux")
        if demux == "name":
            if t1:
                return ("out", a.matches[-1].name), "written"
            if o.get("discard_untrimmed"):
                return ("discard", "discard_untrimmed"), "discard_untrimmed"
            if outs.get("untrimmed_output"):
                return ("untrimmed",), "written"   # the demultiplexer writes it; counted as written
            return ("out", None), "written"
        if demux == "combinatorial":
            n1 = a.matches[-1].name if t1 else None
            n2 = b.matches[-1].name if t2 else None
            if o.get("discard_untrimmed") and (n1 is None or n2 is None):
                return ("discard", "discard_untrimmed"), "discard_untrimmed"
            return ("out", n1, n2), "written"
        if o.get("discard_trimmed"):
            hit = t1 if b is None else refpipe.combine(self.mode, t1, t2)
            if hit:
                return ("discard", "discard_trimmed"), "discard_trimmed"
        if o.get("discard_untrimmed") or outs.get("untrimmed_output"):
            hit = (not t1) if b is None else refpipe.combine(self.untrimmed_mode, not t1, not t2)
            if hit:
                if outs.get("untrimmed_output"):
                    return ("untrimmed",), "discard_untrimmed"
                return ("discard", "discard_untrimmed"), "discard_untrimmed"
        return ("out",), "written"


def _read(path, broken):
    try:
        return clih.read_records(path)[1]
    except (clih.Malformed, OSError, UnicodeDecodeError, EOFError, ValueError) as e:
        broken.append(f"{os.path.basename(path)}: {type(e).__name__}: {e}")
        return []


def read_outputs(wd, files, layout, broken=None):
    """files: mapping from expected_files. Returns {category: (records1, records2)} and the set of unexpected files."""
    got = {}
    listed = set()
    broken = broken if broken is not None else []
    for cat, (f1, f2) in files.items():
        p1 = os.path.join(wd, f1)
        listed.add(f1)
        if not os.path.exists(p1):
            got[cat] = None
            continue
        r1 = _read(p1, broken)
        if f2 == "INTERLEAVED":
            got[cat] = (r1[0::2], r1[1::2], len(r1) % 2)
        elif f2 is not None:
            listed.add(f2)
            p2 = os.path.join(wd, f2)
            got[cat] = (r1, _read(p2, broken) if os.path.exists(p2) else None, 0)
        else:
            got[cat] = (r1, None, 0)
    extra = set(n for n in os.listdir(wd) if n.endswith(".fq")) - listed
    return got, extra


# ------------------------------------------------------------------------------------------------
# corpus realising every vector of predicate outcomes
# ------------------------------------------------------------------------------------------------

AD1 = "GATCGGAAGA"
AD2 = "CTGTCTCTTA"
BODY = "ACGTTGCAACTGGTCA"


def corpus(adapter=AD1, tag="r"):
    """Reads whose TRIMMED length / N count / expected errors / CASAVA flag / adapter presence take every combination."""
    recs = []
    k = 0
    for blen in (0, 4, 5, 8, 10, 11, 12):
        for ncount in (0, 1, 2, 3):
            if blen == 0 and ncount:
                continue
            for qkind in ("good", "q10", "oneQ0"):
                for casava in ("N", "Y"):
                    for has in (False, True):
                        body = list(BODY[:blen])
                        pos = [1, 2, 0][:ncount] if blen == 4 else [1, 3, 2][:ncount]
                        for p in pos:
                            body[p] = "N"
                        body = "".join(body)
                        if qkind == "good":
                            q = "I" * blen
                        elif qkind == "q10":
                            q = "+" * blen
                        else:
                            q = ("I" * (blen - 1) + "!") if blen else ""
                            q = q[::-1] if blen > 4 else q
                        seq = body + (adapter if has else "")
                        qual = q + ("I" * len(adapter) if has else "")
                        # some IDs contain ':Y:' themselves: only the comment field carries the CASAVA flag
                        ident = f"{tag}{k}:Y:z" if (k % 11 == 0) else f"{tag}{k}"
                        if k % 13 == 5:
                            # no comment field at all, ':Y:' right after the first character of the ID: not a CASAVA field
                            recs.append((f"{tag}:Y:{k}", seq, qual))
                            k += 1
                            continue
                        # some headers carry a further field after the CASAVA field, flagged the other way round
                        extra = f" 7:{'N' if casava == 'Y' else 'Y'}:0" if k % 7 == 3 else ""
                        recs.append((f"{ident} 1:{casava}:0{extra}", seq, qual))
                        k += 1
    return recs


def mate_corpus(recs1, adapter=AD2):
    """R2 reads: the same construction, permuted so that the two mates of a pair disagree on most predicates."""
    base = corpus(adapter, tag="x")
    n = len(base)
    out = []
    for i, r in enumerate(recs1):
        b = base[(i * 7 + i // 2 + i // 12 + 11) % n]
        name = r[0].replace(" 1:", " 2:")
        if i % 3 == 1:
            # the mates of some pairs carry different CASAVA flags (valid, if unusual): the pair decision must combine both
            name = name.replace(" 2:Y:", " 2:n:").replace(" 2:N:", " 2:Y:").replace(" 2:n:", " 2:N:")
        out.append((name, b[1], b[2]))
    return out


# ------------------------------------------------------------------------------------------------
# run one scenario and compare everything
# ------------------------------------------------------------------------------------------------

def make_adapters(opts):
    from cutadapt.parser import make_adapters_from_specifications

    params = dict(max_errors=opts.get("e", 0.1), min_overlap=opts.get("O", 3), read_wildcards=False, adapter_wildcards=True,
                  indels=not opts.get("no_indels", False))
    tmap = {"-a": "back", "-g": "front", "-b": "anywhere", "-A": "back", "-G": "front", "-B": "anywhere"}
    a1 = make_adapters_from_specifications([(tmap[f], s) for f, s in opts.get("adapters", [])], params)
    a2 = make_adapters_from_specifications([(tmap[f], s) for f, s in opts.get("adapters2", [])], params)
    return a1, a2


def run_scenario(opts, outs, layout, recs1, recs2, wd, report=None, want_json=True, cores=1):
    """Returns dict(violations=[(kind, what, detail)], stats=...). kinds: 'cli', 'files', 'dest', 'sync', 'unit', 'content',
    'account', 'demux'."""
    V = []
    paired = layout != "single"
    ind = os.path.join(wd, "in")
    outd = os.path.join(wd, "out")
    for d in (ind, outd):
        os.makedirs(d, exist_ok=True)
        for n in os.listdir(d):
            os.unlink(os.path.join(d, n))
    if layout == "single":
        p = os.path.join(ind, "in.fq")
        clih.write_text(p, clih.fastq_text(recs1))
        inputs = [p]
    elif layout == "paired":
        p1, p2 = os.path.join(ind, "in.1.fq"), os.path.join(ind, "in.2.fq")
        clih.write_text(p1, clih.fastq_text(recs1))
        clih.write_text(p2, clih.fastq_text(recs2))
        inputs = [p1, p2]
    else:
        p = os.path.join(ind, "in.fq")
        clih.write_text(p, clih.fastq_text([x for pr in zip(recs1, recs2) for x in pr]))
        inputs = [p]
    jpath = os.path.join(wd, "report.json") if want_json else None
    if jpath and os.path.exists(jpath):
        os.unlink(jpath)
    argv = build_argv(opts, outs, layout, outd, inputs, report=report, json_path=jpath, cores=cores)
    a1, a2 = make_adapters(opts)
    router = Router(opts, outs, layout, a1, a2)
    if cores > 1:
        # several cores: the real runner on the virtual multiprocessing layer (default schedule), small chunks
        from . import vmp

        argv = ["--buffer-size", "3000"] + argv
        sched, r, exc = vmp.run(lambda: clih.run_cli(argv), policy="fair")
        if r is None or sched.deadlock:
            r = clih.CliResult()
            r.exit, r.exc = "FAILED", f"deadlock={sched.deadlock} exception={exc!r}"
    else:
        r = clih.run_cli(argv)
    st = dict(reads=len(recs1), argv=argv, categories={}, disagreeing_pairs=0, multi_filter_reads=0)
    if r.exit != 0:
        V.append(("cli", f"cutadapt failed: exit={r.exit} {r.exc} {r.errors()[:1]}", {}))
        st["expected_counts"] = {}
        return dict(violations=V, stats=st, result=r, json=None, router=router, got={})
    names1 = [a.name for a in a1]
    names2 = [a.name for a in a2]
    files = expected_files(opts, outs, layout, names1, names2)
    broken = []
    got, extra = read_outputs(outd, files, layout, broken)
    for b in broken:
        V.append(("files", f"output file does not parse: {b}", {}))
    if extra:
        V.append(("files", f"unexpected output files {sorted(extra)}", {}))
    for cat, g in got.items():
        if g is None:
            V.append(("files", f"expected output file for {cat} was not created", {}))
    # where is every read?
    where = {}
    for cat, g in got.items():
        if g is None:
            continue
        r1s, r2s, odd = g
        if odd:
            V.append(("sync", f"interleaved file for {cat} holds an odd number of records", {}))
        if r2s is not None:
            if len(r1s) != len(r2s):
                V.append(("sync", f"files for {cat} hold {len(r1s)} and {len(r2s)} records", {}))
            for x, y in zip(r1s, r2s):
                if x[0].split()[0] != y[0].split()[0]:
                    V.append(("sync", f"record k of the R1 and R2 file for {cat} come from different pairs", dict(r1=x[0], r2=y[0])))
                    break
        for i, x in enumerate(r1s):
            rid = x[0].split()[0]
            where.setdefault(rid, []).append((cat, x, r2s[i] if (r2s is not None and i < len(r2s)) else None))
    counted = {}
    written_bp = [0, 0]
    per_filter_order_sensitive = 0
    for i, rec in enumerate(recs1):
        rid = rec[0].split()[0]
        a, b = router.process(rec, recs2[i] if paired else None)
        cat, counted_as = router.destination(a, b)
        counted[counted_as] = counted.get(counted_as, 0) + 1
        st["categories"][str(cat)] = st["categories"].get(str(cat), 0) + 1
        if paired:
            pa, pb = router.model.predicates(a, 0), router.model.predicates(b, 1)
            if any(pa[f] is not None and pb[f] is not None and bool(pa[f]) != bool(pb[f]) for f in FILTERS) or bool(a.matches) != bool(b.matches):
                st["disagreeing_pairs"] += 1
        pa = router.model.predicates(a, 0)
        if sum(1 for f in FILTERS if pa[f]) >= 2:
            st["multi_filter_reads"] += 1
        places = where.get(rid, [])
        if cat[0] == "discard":
            if places:
                V.append(("dest", f"read must be discarded ({cat[1]}) but was written to {places[0][0]}",
                          dict(read=list(rec), mate=list(recs2[i]) if paired else None)))
            continue
        if counted_as == "written" or cat[0] in ("out", "untrimmed"):
            if cat[0] in ("out", "untrimmed") and counted_as == "written":
                written_bp[0] += len(a.seq)
                if b is not None:
                    written_bp[1] += len(b.seq)
        if len(places) != 1:
            kind = "dest" if len(places) == 0 else "dest"
            V.append((kind, f"read must be in {cat} exactly once but is in {[p[0] for p in places]}",
                      dict(read=list(rec), mate=list(recs2[i]) if paired else None)))
            continue
        pcat, x, y = places[0]
        if pcat != cat:
            V.append(("dest" if cat[0] != "out" or pcat[0] != "out" else "demux", f"read must be in {cat} but is in {pcat}",
                      dict(read=list(rec), mate=list(recs2[i]) if paired else None)))
            continue
        if tuple(x) != a.tup():
            V.append(("content", "written R1 record differs from the processed read", dict(read=list(rec), got=list(x), expected=list(a.tup()))))
        if b is not None and y is not None and tuple(y) != b.tup():
            V.append(("unit", "written R2 record is not the processed mate of the R1 record", dict(read=list(rec), mate=list(recs2[i]),
                                                                                             got=list(y), expected=list(b.tup()))))
    st["expected_counts"] = counted
    st["written_bp"] = written_bp
    return dict(violations=V, stats=st, result=r, json=clih.read_json(jpath) if jpath and os.path.exists(jpath) else None,
                router=router, got=got)
