"""E5: virtual multiprocessing.

One real thread per virtual process, a semaphore baton so that exactly one runs at a time, and a
scheduler that is asked for the next process at every *visible* operation (pipe send, blocking
receive, queue put/get, connection.wait, join).  The unmodified cutadapt.runners code runs on top
(ReaderProcess.run, WorkerProcess.run, ParallelPipelineRunner, cli.main).

Semantics (see DESIGN.md section 1.1):
  * start(): the child gets a pickle round-trip copy of the subclass attributes of the Process object
    (spawn semantics: private pipeline / proxy writers); virtual pipes and queues pickle to themselves.
    The child runs its local prefix immediately (local code is independent of everything else) and
    parks at its first visible operation.
  * Connection.send pickles at send time; FIFO; capacity: control messages never block; with
    bytes_capacity=1 a send_bytes blocks while another data chunk is in flight on the same pipe
    (real chunks larger than the 64 KiB pipe buffer do block).
  * recv on an empty pipe blocks forever, also when the writer is gone (under fork the parent keeps
    the write end open, so there is no EOF).
  * A receive on a non-empty pipe/queue is executed without a scheduling point: it commutes with every
    transition of the other processes (single consumer; senders append at the tail).  Sound partial-
    order reduction; can be switched off (reduce=False).
  * terminate(): the target performs no further operation.
  * The execution ends when the virtual main process returns or raises.
  * Deadlock = main not finished and nothing enabled.
"""
import collections
import copy
import hashlib
import io
import multiprocessing
import multiprocessing.connection
import pickle
import sys
import threading

HORIZON = 6000


class VKilled(BaseException):
    pass


class HarnessNondeterminism(Exception):
    pass


class VProc:
    def __init__(self, sched, name, target):
        self.s = sched
        self.name = name
        self.pid = len(sched.procs)
        sched.procs.append(self)
        self.target = target
        self.go = threading.Semaphore(0)
        self.pending = None  # (kind, enabled_fn) while parked at a visible operation
        self.finished = False
        self.terminated = False
        self.exc = None
        self.nops = 0
        self.rhash = b""
        self.rlog = []  # (channel name, small summary) of everything this process received
        self.boot_parent = None
        self.thread = threading.Thread(target=self._run, daemon=True, name=f"vproc-{name}")

    def _run(self):
        self.go.acquire()
        _tls.proc = self
        try:
            if self.s.over:
                raise VKilled()
            self.target()
        except VKilled:
            pass
        except BaseException as e:  # noqa
            self.exc = e
        finally:
            try:
                self.s.finish(self)
            except VKilled:
                pass

    def status(self):
        if self.terminated:
            return "T"
        if self.finished:
            return "F"
        return "R"

    def absorb(self, obj_bytes):
        self.rhash = hashlib.sha1(self.rhash + obj_bytes).digest()


_tls = threading.local()


def cur():
    return _tls.proc


class Sched:
    def __init__(self, prefix=(), bytes_capacity=None, reduce=True, policy="lowest"):
        self.policy = policy  # canonical order of the enabled processes: "lowest" (running first, then ids) or "fair"
        self.procs = []
        self.prefix = list(prefix)
        self.points = []  # (enabled pids in canonical order, chosen index, state key)
        self.trace = []  # (proc name, kind) per executed visible op
        self.over = False
        self.done = threading.Semaphore(0)
        self.deadlock = None
        self.horizon_hit = False
        self.divergence = None
        self.bytes_capacity = bytes_capacity
        self.reduce = reduce
        self.registry = {}
        self.channels = []
        self.ooo_arrivals = 0

    # -- state key: every virtual process is a deterministic function of what it received
    def key(self):
        h = hashlib.sha1()
        for p in self.procs:
            h.update(f"{p.pid}:{p.status()}:{p.nops}:".encode())
            h.update(p.rhash)
            h.update(b"|" + (p.pending[0].encode() if p.pending else b"-"))
        return h.digest()

    def enabled(self):
        res = []
        for p in self.procs:
            if p.finished or p.terminated or p.pending is None:
                continue
            if p.pending[1]():
                res.append(p)
        return res

    def point(self, kind, enabled_fn, immediate_ok=False):
        """Called by the running virtual process before a visible operation."""
        me = cur()
        if self.over or me.terminated:
            raise VKilled()
        if immediate_ok and self.reduce and me.boot_parent is None and enabled_fn():
            me.nops += 1
            return
        me.pending = (kind, enabled_fn)
        if me.boot_parent is not None:
            parent, me.boot_parent = me.boot_parent, None
            parent.go.release()
            me.go.acquire()
        else:
            self._dispatch(me)
        if self.over or me.terminated:
            raise VKilled()
        me.pending = None
        me.nops += 1

    def _dispatch(self, me):
        """me is the thread that currently holds the baton (parked at a point, or finished)."""
        en = self.enabled()
        if not en:
            main = self.procs[0]
            if not main.finished:
                self.deadlock = ", ".join(
                    f"{p.name}:{p.status()}:{p.pending[0] if p.pending else '-'}" for p in self.procs)
            self._end()
            if me is not None and not me.finished:
                me.go.acquire()
            return
        if self.policy == "fair":
            # least recently scheduled first: every worker gets its turn (used for single runs outside the explorer)
            en.sort(key=lambda p: (getattr(p, "last_run", -1), p.pid))
        else:
            en.sort(key=lambda p: (0 if p is me else 1, p.pid))
        if len(self.trace) >= HORIZON:
            self.horizon_hit = True
            self._end()
            if me is not None and not me.finished:
                me.go.acquire()
            return
        if len(en) == 1:
            c = 0
        else:
            i = len(self.points)
            if i < len(self.prefix):
                c = self.prefix[i]
                if c >= len(en):
                    self.divergence = f"choice {c} at point {i} but only {len(en)} enabled"
                    self._end()
                    if me is not None and not me.finished:
                        me.go.acquire()
                    return
            else:
                c = 0
            self.points.append((tuple(p.pid for p in en), c, self.key()))
        nxt = en[c]
        nxt.last_run = len(self.trace)
        self.trace.append((nxt.name, nxt.pending[0]))
        if nxt is me:
            return
        nxt.go.release()
        if me is not None and not me.finished:
            me.go.acquire()

    def finish(self, me):
        me.finished = True
        me.pending = None
        if self.over:
            return
        if me.pid == 0:
            self._end()
            return
        if me.boot_parent is not None:  # finished before its first visible operation
            parent, me.boot_parent = me.boot_parent, None
            parent.go.release()
            return
        self._dispatch(me)

    def _end(self):
        if not self.over:
            self.over = True
            self.done.release()


class Channel:
    def __init__(self, name):
        self.name = name
        self.items = collections.deque()  # (kind, bytes)

    def data_in_flight(self):
        return sum(1 for k, _ in self.items if k == "bytes")


class VConn:
    def __init__(self, sched, chan, readable, writable):
        self.s = sched
        self.chan = chan
        self.readable = readable
        self.writable = writable
        self.closed = False
        self._id = len(sched.registry)
        sched.registry[self._id] = self

    def _can_send_bytes(self):
        cap = self.s.bytes_capacity
        return cap is None or self.chan.data_in_flight() < cap

    def send(self, obj):
        data = pickle.dumps(obj)
        self.s.point("send", lambda: True)
        self.chan.items.append(("obj", data))

    def send_bytes(self, b, offset=0, size=None):
        data = bytes(b)[offset: None if size is None else offset + size]
        self.s.point("send_bytes", self._can_send_bytes)
        self.chan.items.append(("bytes", data))

    def recv(self):
        self.s.point("recv", lambda: len(self.chan.items) > 0, immediate_ok=True)
        kind, data = self.chan.items.popleft()
        cur().absorb(b"o" + data)
        if kind != "obj":
            raise OSError("virtual pipe: recv() met a bytes message (protocol mismatch)")
        obj = pickle.loads(data)
        cur().rlog.append((self.chan.name, obj if isinstance(obj, int) else type(obj).__name__))
        return obj

    def recv_bytes(self, maxlength=None):
        self.s.point("recv_bytes", lambda: len(self.chan.items) > 0, immediate_ok=True)
        kind, data = self.chan.items.popleft()
        cur().absorb(b"b" + data)
        cur().rlog.append((self.chan.name, f"bytes[{len(data)}]"))
        return data

    def poll(self, timeout=0.0):
        return len(self.chan.items) > 0

    def close(self):
        self.closed = True

    def fileno(self):
        raise io.UnsupportedOperation("virtual connection")

    def __enter__(self):
        return self

    def __exit__(self, *a):
        self.close()

    def __reduce__(self):
        return (_lookup, (self._id,))


class VQueue:
    def __init__(self, sched):
        self.s = sched
        self.q = collections.deque()
        self._id = len(sched.registry)
        sched.registry[self._id] = self

    def put(self, x, block=True, timeout=None):
        data = pickle.dumps(x)
        self.s.point("qput", lambda: True)
        self.q.append(data)

    def put_nowait(self, x):
        self.put(x)

    def get(self, block=True, timeout=None):
        self.s.point("qget", lambda: len(self.q) > 0, immediate_ok=True)
        data = self.q.popleft()
        cur().absorb(b"q" + data)
        obj = pickle.loads(data)
        cur().rlog.append(("queue", obj if isinstance(obj, int) else type(obj).__name__))
        return obj

    def empty(self):
        return not self.q

    def qsize(self):
        return len(self.q)

    def close(self):
        pass

    def join_thread(self):
        pass

    def cancel_join_thread(self):
        pass

    def __reduce__(self):
        return (_lookup, (self._id,))


_CURRENT = [None]


def _lookup(i):
    return _CURRENT[0].registry[i]


class VCtx:
    """Stands in for runners.mpctx."""

    def __init__(self, sched):
        self.s = sched

    def Pipe(self, duplex=False):
        chan = Channel(f"pipe{len(self.s.channels)}")
        self.s.channels.append(chan)
        if duplex:
            raise NotImplementedError("duplex pipes are not used by cutadapt.runners")
        return VConn(self.s, chan, True, False), VConn(self.s, chan, False, True)

    def Queue(self, maxsize=0):
        return VQueue(self.s)

    SimpleQueue = Queue

    def get_start_method(self):
        return "spawn"


def vwait(conns, timeout=None):
    conns = list(conns)
    s = _CURRENT[0]
    s.point("wait", lambda: any(c.poll() for c in conns))
    ready = [c for c in conns if c.poll()]
    cur().absorb(b"w" + repr([conns.index(c) for c in ready]).encode())
    return ready


_BASE_KEYS = None


def _base_keys():
    global _BASE_KEYS
    if _BASE_KEYS is None:
        _BASE_KEYS = set(multiprocessing.Process().__dict__.keys())
    return _BASE_KEYS


class Execution:
    """Result of one complete run under a given schedule prefix."""

    __slots__ = ("sched", "result", "main_exc", "leaked")


def run(main_fn, prefix=(), bytes_capacity=None, reduce=True, policy="lowest"):
    """Run main_fn() as the virtual main process with cutadapt.runners bound to the virtual layer.
    Returns (sched, value returned by main_fn or None, exception raised by main_fn or None)."""
    import cutadapt.runners as R

    sched = Sched(prefix, bytes_capacity=bytes_capacity, reduce=reduce, policy=policy)
    _CURRENT[0] = sched
    handles = {}

    def vstart(self):
        state = {k: v for k, v in self.__dict__.items() if k not in _base_keys()}
        clone = copy.copy(self)
        clone.__dict__.update(pickle.loads(pickle.dumps(state)))
        vp = VProc(sched, f"{type(self).__name__}{len(sched.procs)}", clone.run)
        handles[id(self)] = vp
        parent = cur()
        vp.boot_parent = parent
        vp.thread.start()
        vp.go.release()
        parent.go.acquire()  # child runs its local prefix, parks at its first visible operation

    def vjoin(self, timeout=None):
        vp = handles.get(id(self))
        if vp is None:
            return
        sched.point("join", lambda: vp.finished or vp.terminated, immediate_ok=True)

    def vterminate(self):
        vp = handles.get(id(self))
        if vp is not None and not vp.finished:
            vp.terminated = True

    def vis_alive(self):
        vp = handles.get(id(self))
        return vp is not None and not (vp.finished or vp.terminated)

    patched = []
    for cls in (R.ReaderProcess, R.WorkerProcess):
        for name, fn in (("start", vstart), ("join", vjoin), ("terminate", vterminate), ("kill", vterminate),
                         ("is_alive", vis_alive)):
            patched.append((cls, name, cls.__dict__.get(name, _MISSING)))
            setattr(cls, name, fn)

    class _Handle:
        def __init__(self, vp):
            self.vp = vp

        def terminate(self):
            if not self.vp.finished:
                self.vp.terminated = True

        kill = terminate

        def join(self, timeout=None):
            pass

    old = dict(ctx=R.mpctx, wait=multiprocessing.connection.wait, ac=multiprocessing.active_children, stdin=sys.stdin)
    R.mpctx = VCtx(sched)
    multiprocessing.connection.wait = vwait
    multiprocessing.active_children = lambda: [_Handle(p) for p in sched.procs[1:] if not (p.finished or p.terminated)]
    sys.stdin = io.StringIO()
    box = {}

    def main_target():
        try:
            box["value"] = main_fn()
        except VKilled:
            raise
        except BaseException as e:  # noqa
            box["exc"] = e

    mainp = VProc(sched, "main", main_target)
    mainp.thread.start()
    leaked = 0
    try:
        mainp.go.release()
        sched.done.acquire()
    finally:
        sched.over = True
        for p in sched.procs:
            if not p.finished or p.thread.is_alive():
                p.go.release()
        for p in sched.procs:
            p.thread.join(2.0)
            if p.thread.is_alive():
                leaked += 1
        for cls, name, orig in patched:
            if orig is _MISSING:
                try:
                    delattr(cls, name)
                except AttributeError:
                    pass
            else:
                setattr(cls, name, orig)
        R.mpctx = old["ctx"]
        multiprocessing.connection.wait = old["wait"]
        multiprocessing.active_children = old["ac"]
        sys.stdin = old["stdin"]
        _CURRENT[0] = None
    sched.leaked = leaked
    return sched, box.get("value"), box.get("exc")


_MISSING = object()
